mod math;
mod util;

use math::{Pair, PairTrait, gcd};

const LIMIT: u32 = 1000;

fn main() -> felt252 {
    let p = Pair { a: 12, b: 18 };
    let g = gcd(p.a, p.b);
    let total = util::sum_to(g) + p.weight();
    if total > LIMIT {
        return 0;
    }
    total.into()
}

fn fib(n: u32) -> u32 {
    if n < 2 {
        return n;
    }
    fib(n - 1) + fib(n - 2)
}

fn choose(flag: bool, x: u8, y: u8) -> u8 {
    let unused_value = 5_u8;
    if flag {
        x
    } else {
        y
    }
}

fn collect(n: u32) -> Array<u32> {
    let mut out = array![];
    let mut i = 0_u32;
    while i != n {
        out.append(fib(i));
        i += 1;
    }
    out
}

fn legacy(x: u8) -> felt252 {
    util::old_describe(x) + util::fancy(x).into()
}
