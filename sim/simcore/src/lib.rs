//! Common machinery of the simulators: PRNG, hashing, delta-debugging minimiser, evidence and
//! known-findings files, exit-code conventions.
//!
//! Exit codes: 0 = property held on everything explored; 1 = violation (a `VIOLATION` line was
//! printed); 2 = harness or build error (never a statement about the property).

use std::collections::BTreeMap;
use std::path::{Path, PathBuf};

use serde::{Deserialize, Serialize};
use serde_json::{Value, json};

pub const EXIT_OK: i32 = 0;
pub const EXIT_VIOLATION: i32 = 1;
pub const EXIT_HARNESS: i32 = 2;

// ---------------------------------------------------------------------------------------------
// PRNG: SplitMix64 seeding xoshiro256**. Own code so that one integer decides everything and no
// dependency upgrade can change a replay.
// ---------------------------------------------------------------------------------------------

pub fn splitmix64(state: &mut u64) -> u64 {
    *state = state.wrapping_add(0x9E37_79B9_7F4A_7C15);
    let mut z = *state;
    z = (z ^ (z >> 30)).wrapping_mul(0xBF58_476D_1CE4_E5B9);
    z = (z ^ (z >> 27)).wrapping_mul(0x94D0_49BB_1331_11EB);
    z ^ (z >> 31)
}

/// Mixes a seed with a stream/run index into an independent seed.
pub fn mix(seed: u64, index: u64) -> u64 {
    let mut s = seed ^ index.wrapping_mul(0xD1B5_4A32_D192_ED03).rotate_left(17);
    let a = splitmix64(&mut s);
    let b = splitmix64(&mut s);
    a ^ b.rotate_left(32) ^ index
}

#[derive(Clone, Debug)]
pub struct Rng {
    s: [u64; 4],
}

impl Rng {
    pub fn new(seed: u64) -> Self {
        let mut sm = seed;
        let s = [splitmix64(&mut sm), splitmix64(&mut sm), splitmix64(&mut sm), splitmix64(&mut sm)];
        Rng { s }
    }
    /// An independent stream derived from this seed and a label.
    pub fn stream(seed: u64, label: &str) -> Self {
        Rng::new(mix(seed, fnv64(label.as_bytes())))
    }
    pub fn next_u64(&mut self) -> u64 {
        let result = self.s[1].wrapping_mul(5).rotate_left(7).wrapping_mul(9);
        let t = self.s[1] << 17;
        self.s[2] ^= self.s[0];
        self.s[3] ^= self.s[1];
        self.s[1] ^= self.s[2];
        self.s[0] ^= self.s[3];
        self.s[2] ^= t;
        self.s[3] = self.s[3].rotate_left(45);
        result
    }
    /// Uniform in `0..n` (n > 0).
    pub fn below(&mut self, n: usize) -> usize {
        assert!(n > 0);
        (((self.next_u64() >> 11) as u128 * n as u128) >> 53) as usize
    }
    pub fn range(&mut self, lo: i64, hi_inclusive: i64) -> i64 {
        lo + self.below((hi_inclusive - lo + 1) as usize) as i64
    }
    pub fn chance(&mut self, num: u32, den: u32) -> bool {
        (self.below(den as usize) as u32) < num
    }
    pub fn pick<'a, T>(&mut self, items: &'a [T]) -> &'a T {
        &items[self.below(items.len())]
    }
    pub fn shuffle<T>(&mut self, items: &mut [T]) {
        for i in (1..items.len()).rev() {
            let j = self.below(i + 1);
            items.swap(i, j);
        }
    }
    pub fn next_u128(&mut self) -> u128 {
        ((self.next_u64() as u128) << 64) | self.next_u64() as u128
    }
}

// ---------------------------------------------------------------------------------------------
// Hashing (FNV-1a 64): stable across processes, unlike std's RandomState.
// ---------------------------------------------------------------------------------------------

pub fn fnv64(bytes: &[u8]) -> u64 {
    let mut x = 0xcbf2_9ce4_8422_2325u64;
    for b in bytes {
        x ^= *b as u64;
        x = x.wrapping_mul(0x0000_0100_0000_01b3);
    }
    x
}

pub fn hex64(x: u64) -> String {
    format!("{x:016x}")
}

// ---------------------------------------------------------------------------------------------
// Environment
// ---------------------------------------------------------------------------------------------

pub fn verif_seed() -> u64 {
    match std::env::var("VERIF_SEED") {
        Ok(s) => s.trim().parse::<u64>().unwrap_or_else(|_| fnv64(s.as_bytes())),
        Err(_) => 1,
    }
}

pub fn verif_root() -> PathBuf {
    std::env::var("VERIF_ROOT").map(PathBuf::from).unwrap_or_else(|_| PathBuf::from("/verif"))
}

pub fn repo_root() -> PathBuf {
    std::env::var("VERIF_REPO").map(PathBuf::from).unwrap_or_else(|_| PathBuf::from("/repo"))
}

pub fn env_usize(name: &str, default: usize) -> usize {
    std::env::var(name).ok().and_then(|s| s.parse().ok()).unwrap_or(default)
}

// ---------------------------------------------------------------------------------------------
// Delta debugging over a list (ddmin, complement-removal variant): removes elements while the
// predicate keeps holding. The predicate must be deterministic.
// ---------------------------------------------------------------------------------------------

pub fn ddmin<T: Clone>(items: &[T], mut still_fails: impl FnMut(&[T]) -> bool) -> Vec<T> {
    let mut cur: Vec<T> = items.to_vec();
    let mut n = 2usize;
    while cur.len() >= 2 {
        let chunk = cur.len().div_ceil(n);
        let mut reduced = false;
        let mut start = 0;
        while start < cur.len() {
            let end = (start + chunk).min(cur.len());
            let mut cand = Vec::with_capacity(cur.len() - (end - start));
            cand.extend_from_slice(&cur[..start]);
            cand.extend_from_slice(&cur[end..]);
            if !cand.is_empty() && still_fails(&cand) {
                cur = cand;
                n = n.saturating_sub(1).max(2);
                reduced = true;
                break;
            }
            start = end;
        }
        if !reduced {
            if n >= cur.len() {
                break;
            }
            n = (n * 2).min(cur.len());
        }
    }
    if cur.len() == 1 && still_fails(&[]) {
        cur.clear();
    }
    cur
}

// ---------------------------------------------------------------------------------------------
// Known findings (committed file, read-only at run time).
// ---------------------------------------------------------------------------------------------

#[derive(Clone, Debug, Serialize, Deserialize)]
pub struct KnownFinding {
    pub property: String,
    /// Specific signature of the failing scenario (engine-defined), matched exactly.
    pub signature: String,
    pub what: String,
    /// Replay file (relative to /verif) that reproduces the finding; the check re-executes it on
    /// every run and prints the KNOWN-FINDING line while it still reproduces.
    #[serde(default)]
    pub replay: Option<String>,
}

#[derive(Clone, Debug, Default, Serialize, Deserialize)]
pub struct KnownFindings {
    #[serde(default)]
    pub findings: Vec<KnownFinding>,
    /// Entries of the form "fixed: property=<id> <commit> <what failed>"; they suppress nothing.
    #[serde(default)]
    pub fixed: Vec<String>,
}

impl KnownFindings {
    pub fn load() -> Self {
        let p = verif_root().join("known_findings.json");
        match std::fs::read_to_string(&p) {
            Ok(s) => serde_json::from_str(&s).unwrap_or_else(|e| harness_error(&format!("bad {p:?}: {e}"))),
            Err(_) => Self::default(),
        }
    }
    /// A finding matches a signature exactly, or — when its last `|`-separated field starts with
    /// `subset-of:` — when the other fields are equal and every comma-separated item of the
    /// signature's last field is in the finding's list (and there is at least one item).
    pub fn lookup(&self, property: &str, signature: &str) -> Option<&KnownFinding> {
        self.findings.iter().find(|f| {
            if f.property != property {
                return false;
            }
            if f.signature == signature {
                return true;
            }
            let (Some((fh, ft)), Some((sh, st))) = (f.signature.rsplit_once('|'), signature.rsplit_once('|')) else {
                return false;
            };
            let Some(allowed) = ft.strip_prefix("subset-of:") else { return false };
            let allowed: Vec<&str> = allowed.split(',').collect();
            fh == sh && !st.is_empty() && st.split(',').all(|i| allowed.contains(&i))
        })
    }
}

// ---------------------------------------------------------------------------------------------
// Evidence
// ---------------------------------------------------------------------------------------------

pub struct Evidence {
    pub property_id: String,
    pub tier: String,
    pub seed: u64,
    pub level: String,
    pub coverage: BTreeMap<String, Value>,
    pub assumptions: Vec<String>,
    pub violations: usize,
    pub wall_s: f64,
}

impl Evidence {
    pub fn new(property_id: &str, tier: &str, seed: u64, level: &str) -> Self {
        Evidence {
            property_id: property_id.into(),
            tier: tier.into(),
            seed,
            level: level.into(),
            coverage: BTreeMap::new(),
            assumptions: vec![],
            violations: 0,
            wall_s: 0.0,
        }
    }
    pub fn set(&mut self, key: &str, v: Value) {
        self.coverage.insert(key.into(), v);
    }
    pub fn to_json(&self) -> Value {
        json!({
            "property_id": self.property_id,
            "tier": self.tier,
            "seed": self.seed,
            "level": self.level,
            "coverage": self.coverage,
            "assumptions": self.assumptions,
            "wall_s": self.wall_s,
            "violations": self.violations,
        })
    }
    /// Writes `<dir>/<id>.json` (atomically: temp file + rename).
    pub fn write_to(&self, path: &Path) {
        if let Some(d) = path.parent() {
            let _ = std::fs::create_dir_all(d);
        }
        let tmp = path.with_extension("json.tmp");
        std::fs::write(&tmp, serde_json::to_string_pretty(&self.to_json()).unwrap() + "\n")
            .unwrap_or_else(|e| harness_error(&format!("cannot write {tmp:?}: {e}")));
        std::fs::rename(&tmp, path).unwrap_or_else(|e| harness_error(&format!("rename {tmp:?}: {e}")));
    }
}

pub fn harness_error(msg: &str) -> ! {
    eprintln!("HARNESS-ERROR: {msg}");
    std::process::exit(EXIT_HARNESS);
}

/// Counter map with stable (sorted) output.
#[derive(Default, Clone, Debug)]
pub struct Counters(pub BTreeMap<String, u64>);
impl Counters {
    pub fn add(&mut self, key: &str, n: u64) {
        *self.0.entry(key.to_string()).or_insert(0) += n;
    }
    pub fn inc(&mut self, key: &str) {
        self.add(key, 1);
    }
    pub fn merge(&mut self, other: &Counters) {
        for (k, v) in &other.0 {
            self.add(k, *v);
        }
    }
    pub fn get(&self, key: &str) -> u64 {
        self.0.get(key).copied().unwrap_or(0)
    }
    pub fn to_json(&self) -> Value {
        json!(self.0)
    }
}

/// Runs `f(i)` for `i in 0..n` on `workers` OS threads (each with a big stack) and returns the
/// results ordered by `i`. Runs share nothing, so the harness's own parallelism is invisible to a
/// run.
pub fn par_map<R: Send>(n: usize, workers: usize, stack_mb: usize, f: impl Fn(usize) -> R + Sync) -> Vec<R> {
    use std::sync::Mutex;
    use std::sync::atomic::{AtomicUsize, Ordering};
    let next = AtomicUsize::new(0);
    let out: Mutex<Vec<Option<R>>> = Mutex::new((0..n).map(|_| None).collect());
    let workers = workers.max(1).min(n.max(1));
    std::thread::scope(|s| {
        for _ in 0..workers {
            std::thread::Builder::new()
                .stack_size(stack_mb << 20)
                .spawn_scoped(s, || {
                    loop {
                        let i = next.fetch_add(1, Ordering::SeqCst);
                        if i >= n {
                            break;
                        }
                        let r = f(i);
                        out.lock().unwrap()[i] = Some(r);
                    }
                })
                .unwrap();
        }
    });
    out.into_inner().unwrap().into_iter().map(|r| r.expect("worker died")).collect()
}

#[cfg(test)]
mod tests {
    use super::*;
    #[test]
    fn rng_is_stable() {
        let mut r = Rng::new(1);
        let a: Vec<u64> = (0..3).map(|_| r.next_u64()).collect();
        let mut r2 = Rng::new(1);
        let b: Vec<u64> = (0..3).map(|_| r2.next_u64()).collect();
        assert_eq!(a, b);
        assert!(Rng::new(2).next_u64() != a[0]);
    }
    #[test]
    fn ddmin_finds_pair() {
        let items: Vec<u32> = (0..40).collect();
        let r = ddmin(&items, |s| s.contains(&7) && s.contains(&31));
        assert_eq!(r, vec![7, 31]);
    }
}
