// A type that appears in a signature only: no libfunc mentions it.
pub struct EmptyB {}

pub fn pass_b(e: EmptyB) -> EmptyB {
    e
}
