#[starknet::contract]
pub mod market {
    use starknet::storage::{StoragePointerReadAccess, StoragePointerWriteAccess};
    use crate::kinds::{Mode, Tag};
    use crate::parts::counter::counter_part;
    use crate::parts::guard::guard_part;
    use crate::parts::switch::switch_part;
    use crate::quota::Quota;
    use crate::tariff::Tariff;

    component!(path: guard_part, storage: guard, event: GuardEvent);
    component!(path: switch_part, storage: switch, event: SwitchEvent);
    component!(path: counter_part, storage: counter, event: CounterEvent);

    impl GuardInternal = guard_part::GuardInternal<ContractState>;
    impl SwitchInternal = switch_part::SwitchInternal<ContractState>;

    #[storage]
    struct Storage {
        #[substorage(v0)]
        counter: counter_part::Storage,
        #[substorage(v0)]
        switch: switch_part::Storage,
        #[substorage(v0)]
        guard: guard_part::Storage,
        quota: Quota,
        tariff: Tariff,
        volume: u64,
        bridge: felt252,
    }

    #[event]
    #[derive(Drop, starknet::Event)]
    enum Event {
        GuardEvent: guard_part::Event,
        #[flat]
        SwitchEvent: switch_part::Event,
        CounterEvent: counter_part::Event,
        Traded: Traded,
        Tuned: Tuned,
    }

    #[derive(Drop, starknet::Event)]
    struct Traded {
        #[key]
        via_l1: bool,
        amount: u64,
        fee: u64,
    }

    #[derive(Drop, starknet::Event)]
    struct Tuned {
        quota: Quota,
        tariff: Tariff,
        tag: Tag,
    }

    #[constructor]
    fn constructor(ref self: ContractState, keeper: felt252, bridge: felt252) {
        self.guard.install(keeper);
        self.bridge.write(bridge);
        self.quota.write(Quota { floor: 1, ceiling: 1000000 });
        self.tariff.write(crate::glue::standard_tariff());
    }

    #[abi(embed_v0)]
    impl MarketImpl of crate::api::IMarket<ContractState> {
        fn tune(ref self: ContractState, quota: Quota, tariff: Tariff, tag: Tag) {
            self.quota.write(quota);
            self.tariff.write(tariff);
            self.emit(Tuned { quota, tariff, tag });
        }
        fn trade(ref self: ContractState, amount: u64) -> u64 {
            self.switch.require_open();
            assert(crate::quota::within(self.quota.read(), amount), 'out of quota');
            let fee = crate::tariff::charge(self.tariff.read(), amount);
            let volume = self.volume.read() + amount;
            self.volume.write(volume);
            self.emit(Traded { via_l1: false, amount, fee });
            volume
        }
        fn volume(self: @ContractState) -> u64 {
            self.volume.read()
        }
        fn quote(self: @ContractState, amounts: Span<u64>) -> Array<u64> {
            let tariff = self.tariff.read();
            let mut out = array![];
            for a in amounts {
                out.append(crate::tariff::charge(tariff, *a));
            }
            out
        }
    }

    #[l1_handler]
    fn from_l1(ref self: ContractState, from_address: felt252, amount: u64, tag: Tag) {
        assert(from_address == self.bridge.read(), 'unknown bridge');
        self.volume.write(self.volume.read() + amount);
        self.emit(Traded { via_l1: true, amount, fee: tag.code.into() });
    }

    #[abi(per_item)]
    #[generate_trait]
    impl Extras of ExtrasTrait {
        #[external(v0)]
        fn drain(ref self: ContractState, mode: Mode) -> u64 {
            let v = self.volume.read();
            if mode == Mode::Draining {
                self.volume.write(0);
            }
            v
        }
    }

    #[abi(embed_v0)]
    pub impl GuardImpl = guard_part::GuardImpl<ContractState>;
    #[abi(embed_v0)]
    pub impl SwitchImpl = switch_part::SwitchImpl<ContractState>;
    #[abi(embed_v0)]
    pub impl CounterImpl = counter_part::CounterImpl<ContractState>;
}
