trait Showable<T> {
    fn show(self: T) -> felt252;
}

struct Opaque {
    inner: felt252,
}

fn show_it<T, +Showable<T>>(x: T) -> felt252 {
    x.show()
}

fn caller() -> felt252 {
    let o = Opaque { inner: 1 };
    show_it(o)
}

fn wrong_arity() -> felt252 {
    show_it::<u8, u8>(1, 2)
}

fn needs_drop<T>(x: T) {}

fn infer_fail() {
    let v = Default::default();
}

impl ShowU8 of Showable<u8> {
    fn show(self: u8) -> felt252 {
        self.into()
    }
    fn extra(self: u8) -> felt252 {
        0
    }
}

fn macro_errors_generic(v: u32) -> Array<u32> {
    let out = array![v,  undefined_generic_item, 3];
    assert!(v  == missing_generic, "generic {}", v);
    out
}
