// QM31 libfuncs (qm31_unpack uses three DivMod hints).
use core::qm31::{QM31Trait, m31, qm31};

fn pack_unpack(a: m31, b: m31, c: m31, d: m31) -> [m31; 4] {
    QM31Trait::new(a, b, c, d).unpack()
}
fn mul_unpack(a: m31, b: m31, c: m31, d: m31) -> [m31; 4] {
    let x = QM31Trait::new(a, b, c, d);
    let y = QM31Trait::new(d, c, b, a);
    (x * y + x).unpack()
}
fn div_unpack(a: m31, b: m31, c: m31) -> [m31; 4] {
    let x = QM31Trait::new(a, b, c, 1);
    let y = QM31Trait::new(3, a, 5, b);
    match y.try_into() {
        Some(nz) => (x / nz).unpack(),
        None => x.unpack(),
    }
}
