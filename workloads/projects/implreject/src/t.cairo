pub trait Foo<T> {}
