//! The simulated (dishonest) prover: wraps the repository's honest `CairoHintProcessor` and, at the
//! hint occurrences named by a fault plan, reports values other than the honest ones.
//!
//! A lie is always "the honest computation, dishonestly reported": the real hint runs first with all
//! its exec-scope side effects, then its fresh output cells are rewritten
//! (`delete_unaccessed` + `insert_value`), so memory stays write-once for the program.

use std::any::Any;
use std::panic::AssertUnwindSafe;

use cairo_lang_casm::hints::{CoreHint, CoreHintBase, Hint};
use cairo_lang_casm::operand::{CellRef, ResOperand};
use cairo_lang_runner::casm_run::{
    CairoHintProcessor, StarknetHintProcessor, StarknetState, cell_ref_to_relocatable,
    extract_relocatable, get_val,
};
use cairo_lang_runner::StarknetExecutionResources;
use cairo_vm::hint_processor::hint_processor_definition::{HintProcessorLogic, HintReference};
use cairo_vm::serde::deserialize_program::ApTracking;
use cairo_vm::types::builtin_name::BuiltinName;
use cairo_vm::types::exec_scope::ExecutionScopes;
use cairo_vm::types::relocatable::{MaybeRelocatable, Relocatable};
use cairo_vm::vm::errors::hint_errors::HintError;
use cairo_vm::vm::errors::vm_errors::VirtualMachineError;
use cairo_vm::vm::runners::cairo_runner::{ResourceTracker, RunResources};
use cairo_vm::vm::vm_core::VirtualMachine;
use num_bigint::BigUint;
use num_traits::{One, Zero};
use serde::{Deserialize, Serialize};
use simcore::Rng;
use starknet_types_core::felt::Felt as Felt252;

/// One planned fault: at hint occurrence `occ` of the run, apply `strat` (variant `variant`).
#[derive(Clone, Debug, Serialize, Deserialize, PartialEq, Eq)]
pub struct Fault {
    pub occ: usize,
    pub strat: String,
    pub variant: usize,
    #[serde(default)]
    pub salt: u64,
}

/// What a hint occurrence looked like in a run (part of the event log).
#[derive(Clone, Debug)]
pub struct OccLog {
    pub kind: &'static str,
    pub pc: usize,
    pub step: usize,
    /// Number of output cells and how many of them were fresh (unset before the hint).
    pub n_outs: usize,
    pub fresh: Vec<bool>,
    pub builtin_cell: Vec<bool>,
    pub honest: Vec<Option<MaybeRelocatable>>,
}

#[derive(Clone, Debug)]
pub struct AppliedLie {
    pub occ: usize,
    pub kind: &'static str,
    pub pc: usize,
    pub step: usize,
    pub strat: String,
    pub variant: usize,
    /// (output index, honest value, reported value)
    pub cells: Vec<(usize, String, String)>,
}

pub fn prime() -> BigUint {
    (BigUint::one() << 251) + (BigUint::from(17u32) << 192) + BigUint::one()
}
pub fn pow2(n: u32) -> BigUint {
    BigUint::one() << n
}
fn f(b: &BigUint) -> Felt252 {
    Felt252::from(b % prime())
}
fn fneg(b: &BigUint) -> Felt252 {
    Felt252::ZERO - f(b)
}
/// a - b as a field element, for naturals.
fn fsub(a: &BigUint, b: &BigUint) -> Felt252 {
    f(a) - f(b)
}
fn fdiv(a: Felt252, b: Felt252) -> Option<Felt252> {
    Some(a * b.inverse()?)
}

pub fn hint_kind(h: &CoreHint) -> &'static str {
    match h {
        CoreHint::AllocSegment { .. } => "AllocSegment",
        CoreHint::TestLessThan { .. } => "TestLessThan",
        CoreHint::TestLessThanOrEqual { .. } => "TestLessThanOrEqual",
        CoreHint::TestLessThanOrEqualAddress { .. } => "TestLessThanOrEqualAddress",
        CoreHint::WideMul128 { .. } => "WideMul128",
        CoreHint::DivMod { .. } => "DivMod",
        CoreHint::Uint256DivMod { .. } => "Uint256DivMod",
        CoreHint::Uint512DivModByUint256 { .. } => "Uint512DivModByUint256",
        CoreHint::SquareRoot { .. } => "SquareRoot",
        CoreHint::Uint256SquareRoot { .. } => "Uint256SquareRoot",
        CoreHint::LinearSplit { .. } => "LinearSplit",
        CoreHint::AllocFelt252Dict { .. } => "AllocFelt252Dict",
        CoreHint::Felt252DictEntryInit { .. } => "Felt252DictEntryInit",
        CoreHint::Felt252DictEntryUpdate { .. } => "Felt252DictEntryUpdate",
        CoreHint::GetSegmentArenaIndex { .. } => "GetSegmentArenaIndex",
        CoreHint::InitSquashData { .. } => "InitSquashData",
        CoreHint::GetCurrentAccessIndex { .. } => "GetCurrentAccessIndex",
        CoreHint::ShouldSkipSquashLoop { .. } => "ShouldSkipSquashLoop",
        CoreHint::GetCurrentAccessDelta { .. } => "GetCurrentAccessDelta",
        CoreHint::ShouldContinueSquashLoop { .. } => "ShouldContinueSquashLoop",
        CoreHint::GetNextDictKey { .. } => "GetNextDictKey",
        CoreHint::AssertLeFindSmallArcs { .. } => "AssertLeFindSmallArcs",
        CoreHint::AssertLeIsFirstArcExcluded { .. } => "AssertLeIsFirstArcExcluded",
        CoreHint::AssertLeIsSecondArcExcluded { .. } => "AssertLeIsSecondArcExcluded",
        CoreHint::RandomEcPoint { .. } => "RandomEcPoint",
        CoreHint::FieldSqrt { .. } => "FieldSqrt",
        CoreHint::DebugPrint { .. } => "DebugPrint",
        CoreHint::AllocConstantSize { .. } => "AllocConstantSize",
        CoreHint::U256InvModN { .. } => "U256InvModN",
        CoreHint::EvalCircuit { .. } => "EvalCircuit",
    }
}

fn reloc(vm: &VirtualMachine, op: &ResOperand) -> Option<Relocatable> {
    std::panic::catch_unwind(AssertUnwindSafe(|| extract_relocatable(vm, op).ok())).ok().flatten()
}

/// The output cells of a hint, in a fixed order: every `CellRef` field of the variant (inputs are
/// `ResOperand`s), plus pointer-addressed outputs. The match is exhaustive on purpose: a new hint
/// variant must be classified here before the harness builds.
pub fn output_cells(h: &CoreHint, vm: &VirtualMachine) -> Vec<Relocatable> {
    let c = |r: &CellRef| cell_ref_to_relocatable(r, vm);
    match h {
        CoreHint::AllocSegment { dst } => vec![c(dst)],
        CoreHint::TestLessThan { dst, .. }
        | CoreHint::TestLessThanOrEqual { dst, .. }
        | CoreHint::TestLessThanOrEqualAddress { dst, .. } => vec![c(dst)],
        CoreHint::WideMul128 { high, low, .. } => vec![c(high), c(low)],
        CoreHint::DivMod { quotient, remainder, .. } => vec![c(quotient), c(remainder)],
        CoreHint::Uint256DivMod { quotient0, quotient1, remainder0, remainder1, .. } => {
            vec![c(quotient0), c(quotient1), c(remainder0), c(remainder1)]
        }
        CoreHint::Uint512DivModByUint256 {
            quotient0,
            quotient1,
            quotient2,
            quotient3,
            remainder0,
            remainder1,
            ..
        } => vec![c(quotient0), c(quotient1), c(quotient2), c(quotient3), c(remainder0), c(remainder1)],
        CoreHint::SquareRoot { dst, .. } => vec![c(dst)],
        CoreHint::Uint256SquareRoot {
            sqrt0,
            sqrt1,
            remainder_low,
            remainder_high,
            sqrt_mul_2_minus_remainder_ge_u128,
            ..
        } => vec![
            c(sqrt0),
            c(sqrt1),
            c(remainder_low),
            c(remainder_high),
            c(sqrt_mul_2_minus_remainder_ge_u128),
        ],
        CoreHint::LinearSplit { x, y, .. } => vec![c(x), c(y)],
        // Writes the new dict segment into the dict-infos array; the segment arena builtin is
        // validated by the OS, not by the program: observed, not forged.
        CoreHint::AllocFelt252Dict { .. } => vec![],
        CoreHint::Felt252DictEntryInit { dict_ptr, .. } => {
            reloc(vm, dict_ptr).and_then(|p| (p + 1usize).ok()).into_iter().collect()
        }
        CoreHint::Felt252DictEntryUpdate { .. } => vec![],
        CoreHint::GetSegmentArenaIndex { dict_index, .. } => vec![c(dict_index)],
        CoreHint::InitSquashData { big_keys, first_key, .. } => vec![c(big_keys), c(first_key)],
        CoreHint::GetCurrentAccessIndex { range_check_ptr } => {
            reloc(vm, range_check_ptr).into_iter().collect()
        }
        CoreHint::ShouldSkipSquashLoop { should_skip_loop } => vec![c(should_skip_loop)],
        CoreHint::GetCurrentAccessDelta { index_delta_minus1 } => vec![c(index_delta_minus1)],
        CoreHint::ShouldContinueSquashLoop { should_continue } => vec![c(should_continue)],
        CoreHint::GetNextDictKey { next_key } => vec![c(next_key)],
        CoreHint::AssertLeFindSmallArcs { range_check_ptr, .. } => match reloc(vm, range_check_ptr) {
            Some(p) => (0..4usize).filter_map(|i| (p + i).ok()).collect(),
            None => vec![],
        },
        CoreHint::AssertLeIsFirstArcExcluded { skip_exclude_a_flag } => vec![c(skip_exclude_a_flag)],
        CoreHint::AssertLeIsSecondArcExcluded { skip_exclude_b_minus_a } => {
            vec![c(skip_exclude_b_minus_a)]
        }
        CoreHint::RandomEcPoint { x, y } => vec![c(x), c(y)],
        CoreHint::FieldSqrt { sqrt, .. } => vec![c(sqrt)],
        CoreHint::DebugPrint { .. } => vec![],
        CoreHint::AllocConstantSize { dst, .. } => vec![c(dst)],
        CoreHint::U256InvModN {
            g0_or_no_inv, g1_option, s_or_r0, s_or_r1, t_or_k0, t_or_k1, ..
        } => vec![c(g0_or_no_inv), c(g1_option), c(s_or_r0), c(s_or_r1), c(t_or_k0), c(t_or_k1)],
        // Fills mod-builtin value cells, which the builtin re-derives: observed, not forged.
        CoreHint::EvalCircuit { .. } => vec![],
    }
}

// ---------------------------------------------------------------------------------------------
// Strategies
// ---------------------------------------------------------------------------------------------

/// Generic single-cell strategies, applicable to any integer-valued output cell. `variant` is the
/// output index.
pub const GENERIC: &[&str] = &[
    "flip", "plus1", "minus1", "plus2", "minus2", "neg", "plus2_64", "plus2_128", "minus2_128",
    "zero", "one", "max128", "pow128", "pminus1", "rand", "rand128", "copy_other", "double", "half",
];
/// Strategies on pointer-valued outputs (AllocSegment / AllocConstantSize).
pub const POINTER: &[&str] =
    &["ptr_plus1", "ptr_alias_prev_segment", "ptr_alias_exec_ahead", "ptr_alias_exec_behind", "ptr_to_int"];

/// Number of algebraic variants per hint kind (strategy name "alg").
pub fn algebraic_variants(kind: &str) -> usize {
    match kind {
        "DivMod" => 10,
        "WideMul128" => 7,
        "LinearSplit" => 6,
        "Uint256DivMod" => 8,
        "Uint512DivModByUint256" => 10,
        "Uint256SquareRoot" => 6,
        "SquareRoot" => 2,
        "U256InvModN" => 6,
        "AssertLeFindSmallArcs" => 4,
        "RandomEcPoint" => 4,
        "FieldSqrt" => 2,
        _ => 0,
    }
}

/// All (strategy, variant) pairs that make sense for an occurrence.
pub fn applicable(occ: &OccLog) -> Vec<(String, usize)> {
    let mut v = vec![];
    for i in 0..occ.n_outs {
        if !occ.fresh[i] {
            continue;
        }
        match &occ.honest[i] {
            Some(MaybeRelocatable::Int(_)) => {
                // Outputs only ever used as a branch condition: any two non-zero values are the
                // same lie, so three representatives suffice.
                let flag = matches!(
                    occ.kind,
                    "TestLessThan" | "TestLessThanOrEqual" | "TestLessThanOrEqualAddress"
                        | "ShouldSkipSquashLoop" | "ShouldContinueSquashLoop"
                        | "AssertLeIsFirstArcExcluded" | "AssertLeIsSecondArcExcluded"
                ) || (occ.kind == "InitSquashData" && i == 0)
                    || (occ.kind == "Uint256SquareRoot" && i == 4);
                if flag {
                    for s in ["flip", "plus2", "pminus1"] {
                        v.push((s.to_string(), i));
                    }
                    continue;
                }
                for s in GENERIC {
                    if *s == "copy_other" && occ.n_outs < 2 {
                        continue;
                    }
                    v.push((s.to_string(), i));
                }
            }
            Some(MaybeRelocatable::RelocatableValue(_)) => {
                for s in POINTER {
                    v.push((s.to_string(), i));
                }
            }
            None => {}
        }
    }
    for k in 0..algebraic_variants(occ.kind) {
        v.push(("alg".to_string(), k));
    }
    v
}

struct Ctx<'a> {
    hint: &'a CoreHint,
    vm: &'a VirtualMachine,
    honest: &'a [Option<MaybeRelocatable>],
    variant: usize,
    rng: Rng,
}

impl Ctx<'_> {
    fn int(&self, i: usize) -> Option<Felt252> {
        match self.honest.get(i)? {
            Some(MaybeRelocatable::Int(v)) => Some(*v),
            _ => None,
        }
    }
    fn big(&self, i: usize) -> Option<BigUint> {
        Some(self.int(i)?.to_biguint())
    }
    fn val(&self, op: &ResOperand) -> Option<BigUint> {
        std::panic::catch_unwind(AssertUnwindSafe(|| get_val(self.vm, op).ok()))
            .ok()
            .flatten()
            .map(|v| v.to_biguint())
    }
}

type Lies = Vec<(usize, MaybeRelocatable)>;
fn ints(v: Vec<(usize, Felt252)>) -> Option<Lies> {
    Some(v.into_iter().map(|(i, x)| (i, MaybeRelocatable::Int(x))).collect())
}

fn generic(name: &str, ctx: &mut Ctx<'_>) -> Option<Lies> {
    let i = ctx.variant;
    let v = ctx.int(i)?;
    let p128 = f(&pow2(128));
    let new = match name {
        "flip" => {
            if v == Felt252::ZERO {
                Felt252::ONE
            } else if v == Felt252::ONE {
                Felt252::ZERO
            } else {
                return None;
            }
        }
        "plus1" => v + Felt252::ONE,
        "minus1" => v - Felt252::ONE,
        "plus2" => v + Felt252::TWO,
        "minus2" => v - Felt252::TWO,
        "neg" => Felt252::ZERO - v,
        "plus2_64" => v + f(&pow2(64)),
        "plus2_128" => v + p128,
        "minus2_128" => v - p128,
        "zero" => Felt252::ZERO,
        "one" => Felt252::ONE,
        "max128" => p128 - Felt252::ONE,
        "pow128" => p128,
        "pminus1" => Felt252::ZERO - Felt252::ONE,
        "rand" => {
            let b = (BigUint::from(ctx.rng.next_u128()) << 128) + BigUint::from(ctx.rng.next_u128());
            f(&b)
        }
        "rand128" => Felt252::from(ctx.rng.next_u128()),
        "copy_other" => {
            let n = ctx.honest.len();
            if n < 2 {
                // In a multi-fault plan the occurrence index may land on another hint than in the
                // honest run (an earlier lie changed the control flow): no other output to copy.
                return None;
            }
            let j = (i + 1 + ctx.rng.below(n - 1)) % n;
            ctx.int(j)?
        }
        "double" => v + v,
        "half" => fdiv(v, Felt252::TWO)?,
        _ => return None,
    };
    ints(vec![(i, new)])
}

fn pointer(name: &str, ctx: &mut Ctx<'_>) -> Option<Lies> {
    let i = ctx.variant;
    let p = match ctx.honest.get(i)? {
        Some(MaybeRelocatable::RelocatableValue(p)) => *p,
        _ => return None,
    };
    let ap = ctx.vm.get_ap();
    let new: MaybeRelocatable = match name {
        "ptr_plus1" => (p + 1usize).ok()?.into(),
        "ptr_alias_prev_segment" => {
            // A previously allocated non-builtin segment: the one right before, if any.
            if p.segment_index <= 2 {
                return None;
            }
            Relocatable::from((p.segment_index - 1, 0)).into()
        }
        "ptr_alias_exec_ahead" => (ap + 64usize).ok()?.into(),
        "ptr_alias_exec_behind" => {
            if ap.offset < 4 {
                return None;
            }
            (ap - 3usize).ok()?.into()
        }
        "ptr_to_int" => MaybeRelocatable::Int(Felt252::from(ctx.rng.below(1 << 20) as u64)),
        _ => return None,
    };
    Some(vec![(i, new)])
}

/// Splits a natural into `n` limbs of `bits` bits; the top limb absorbs any excess.
fn limbs(x: &BigUint, bits: u32, n: usize) -> Vec<Felt252> {
    let mask = pow2(bits) - BigUint::one();
    let mut out = vec![];
    let mut cur = x.clone();
    for k in 0..n {
        if k + 1 == n {
            out.push(f(&cur));
        } else {
            out.push(f(&(&cur & &mask)));
            cur >>= bits;
        }
    }
    out
}

/// Moves a carry between limbs `lo` and `lo+1` of `vals` (limb width `bits`).
fn carry(vals: &mut [Felt252], lo: usize, bits: u32, up: bool) {
    let w = f(&pow2(bits));
    if up {
        vals[lo] -= w;
        vals[lo + 1] += Felt252::ONE;
    } else {
        vals[lo] += w;
        vals[lo + 1] -= Felt252::ONE;
    }
}

fn algebraic(ctx: &mut Ctx<'_>) -> Option<Lies> {
    let p = prime();
    let k = ctx.variant;
    match ctx.hint {
        CoreHint::DivMod { lhs, rhs, .. } => {
            let n = ctx.val(lhs)?;
            let d = ctx.val(rhs)?;
            if d.is_zero() {
                return None;
            }
            let q = ctx.big(0)?;
            let r = ctx.big(1)?;
            let solve = |r2: &BigUint| -> Option<(Felt252, Felt252)> {
                Some((fdiv(fsub(&n, r2), f(&d))?, f(r2)))
            };
            let (q2, r2) = match k {
                0 => {
                    if q.is_zero() {
                        return None;
                    }
                    (f(&(&q - 1u32)), f(&(&r + &d)))
                }
                1 => (f(&(&q + 1u32)), fsub(&r, &d)),
                2 => solve(&BigUint::zero())?,
                3 => solve(&(&d - 1u32))?,
                4 => {
                    let r2 = BigUint::from(ctx.rng.next_u128()) % &d;
                    solve(&r2)?
                }
                5 | 6 => {
                    // Integer solutions of n + k*P = d*q' + r' (wrap-around of the field equation).
                    let kk = (k - 4) as u32;
                    let n2 = &n + &p * kk;
                    (f(&(&n2 / &d)), f(&(&n2 % &d)))
                }
                7 => solve(&(pow2(128) - 1u32))?,
                8 => {
                    // remainder off by a multiple of the divisor
                    let m = 2u32 + ctx.rng.below(5) as u32;
                    if q < BigUint::from(m) {
                        return None;
                    }
                    (f(&(&q - m)), f(&(&r + &d * m)))
                }
                9 => {
                    // swap
                    (f(&r), f(&q))
                }
                _ => return None,
            };
            ints(vec![(0, q2), (1, r2)])
        }
        CoreHint::WideMul128 { lhs, rhs, .. } => {
            let a = ctx.val(lhs)?;
            let b = ctx.val(rhs)?;
            let h = ctx.big(0)?;
            let l = ctx.big(1)?;
            let ab = &a * &b;
            let p128 = pow2(128);
            let solve = |l2: &BigUint| -> Option<(Felt252, Felt252)> {
                Some((fdiv(fsub(&ab, l2), f(&p128))?, f(l2)))
            };
            let (h2, l2) = match k {
                0 => {
                    if h.is_zero() {
                        return None;
                    }
                    (f(&(&h - 1u32)), f(&(&l + &p128)))
                }
                1 => (f(&(&h + 1u32)), fsub(&l, &p128)),
                2 | 3 => {
                    let x = &ab + &p * ((k - 1) as u32);
                    (f(&(&x >> 128)), f(&(&x & (&p128 - 1u32))))
                }
                4 => solve(&BigUint::from(ctx.rng.next_u128()))?,
                5 => solve(&BigUint::zero())?,
                6 => (f(&l), f(&h)),
                _ => return None,
            };
            ints(vec![(0, h2), (1, l2)])
        }
        CoreHint::LinearSplit { value, scalar, max_x, .. } => {
            let v = ctx.val(value)?;
            let s = ctx.val(scalar)?;
            let m = ctx.val(max_x)?;
            if s.is_zero() {
                return None;
            }
            let x = ctx.big(0)?;
            let y = ctx.big(1)?;
            let (x2, y2) = match k {
                0 => {
                    if x.is_zero() {
                        return None;
                    }
                    (f(&(&x - 1u32)), f(&(&y + &s)))
                }
                1 => (f(&(&x + 1u32)), fsub(&y, &s)),
                2 | 3 => {
                    let vv = &v + &p * ((k - 1) as u32);
                    let xx = (&vv / &s).min(m.clone());
                    let yy = &vv - &xx * &s;
                    (f(&xx), f(&yy))
                }
                4 => (Felt252::ZERO, f(&v)),
                5 => (f(&m), f(&v) - f(&m) * f(&s)),
                _ => return None,
            };
            ints(vec![(0, x2), (1, y2)])
        }
        CoreHint::SquareRoot { value, .. } => {
            let v = ctx.val(value)?;
            let s = ctx.big(0)?;
            match k {
                // A root of v + P, if it happens to be a perfect square neighbourhood: floor sqrt.
                0 => ints(vec![(0, f(&(&v + &p).sqrt()))]),
                1 => ints(vec![(0, f(&(s * 2u32)))]),
                _ => None,
            }
        }
        CoreHint::Uint256DivMod { dividend0, dividend1, divisor0, divisor1, .. } => {
            let n: BigUint = ctx.val(dividend0)? + (ctx.val(dividend1)? << 128);
            let d: BigUint = ctx.val(divisor0)? + (ctx.val(divisor1)? << 128);
            if d.is_zero() {
                return None;
            }
            let q: BigUint = ctx.big(0)? + (ctx.big(1)? << 128);
            let r: BigUint = ctx.big(2)? + (ctx.big(3)? << 128);
            let mut vals: Vec<Felt252> = (0..4).map(|i| ctx.int(i).unwrap()).collect();
            match k {
                0 => {
                    if q.is_zero() {
                        return None;
                    }
                    let ql = limbs(&(&q - 1u32), 128, 2);
                    let rl = limbs(&(&r + &d), 128, 2);
                    vals = vec![ql[0], ql[1], rl[0], rl[1]];
                }
                1 => {
                    let ql = limbs(&(&q + 1u32), 128, 2);
                    vals[0] = ql[0];
                    vals[1] = ql[1];
                    // r - d, limb-wise in the field.
                    let dl = limbs(&d, 128, 2);
                    vals[2] -= dl[0];
                    vals[3] -= dl[1];
                }
                2 => carry(&mut vals, 0, 128, false),
                3 => carry(&mut vals, 0, 128, true),
                4 => carry(&mut vals, 2, 128, false),
                5 => carry(&mut vals, 2, 128, true),
                6 => {
                    // wrap-around: integer solution of n + P = d*q' + r'
                    let n2 = &n + &p;
                    let ql = limbs(&(&n2 / &d), 128, 2);
                    let rl = limbs(&(&n2 % &d), 128, 2);
                    vals = vec![ql[0], ql[1], rl[0], rl[1]];
                }
                7 => {
                    // quotient and remainder exchanged
                    vals.swap(0, 2);
                    vals.swap(1, 3);
                }
                _ => return None,
            }
            ints(vals.into_iter().enumerate().collect())
        }
        CoreHint::Uint512DivModByUint256 {
            dividend0, dividend1, dividend2, dividend3, divisor0, divisor1, ..
        } => {
            let n: BigUint = ctx.val(dividend0)?
                + (ctx.val(dividend1)? << 128)
                + (ctx.val(dividend2)? << 256)
                + (ctx.val(dividend3)? << 384);
            let d: BigUint = ctx.val(divisor0)? + (ctx.val(divisor1)? << 128);
            if d.is_zero() {
                return None;
            }
            let q: BigUint = ctx.big(0)? + (ctx.big(1)? << 128) + (ctx.big(2)? << 256) + (ctx.big(3)? << 384);
            let r: BigUint = ctx.big(4)? + (ctx.big(5)? << 128);
            let mut vals: Vec<Felt252> = (0..6).map(|i| ctx.int(i).unwrap()).collect();
            match k {
                0 => {
                    if q.is_zero() {
                        return None;
                    }
                    let ql = limbs(&(&q - 1u32), 128, 4);
                    let rl = limbs(&(&r + &d), 128, 2);
                    vals = vec![ql[0], ql[1], ql[2], ql[3], rl[0], rl[1]];
                }
                1 => {
                    let ql = limbs(&(&q + 1u32), 128, 4);
                    vals[..4].copy_from_slice(&ql);
                    let dl = limbs(&d, 128, 2);
                    vals[4] -= dl[0];
                    vals[5] -= dl[1];
                }
                2 => carry(&mut vals, 0, 128, false),
                3 => carry(&mut vals, 1, 128, false),
                4 => carry(&mut vals, 2, 128, false),
                5 => carry(&mut vals, 4, 128, false),
                6 => carry(&mut vals, 0, 128, true),
                7 => carry(&mut vals, 4, 128, true),
                8 => {
                    let n2 = &n + &p;
                    let ql = limbs(&(&n2 / &d), 128, 4);
                    let rl = limbs(&(&n2 % &d), 128, 2);
                    vals = vec![ql[0], ql[1], ql[2], ql[3], rl[0], rl[1]];
                }
                9 => carry(&mut vals, 2, 128, true),
                _ => return None,
            }
            ints(vals.into_iter().enumerate().collect())
        }
        CoreHint::Uint256SquareRoot { value_low, value_high, .. } => {
            let v: BigUint = ctx.val(value_low)? + (ctx.val(value_high)? << 128);
            let s: BigUint = ctx.big(0)? + (ctx.big(1)? << 64);
            let mut vals: Vec<Felt252> = (0..5).map(|i| ctx.int(i).unwrap()).collect();
            let set = |vals: &mut Vec<Felt252>, s2: &BigUint| {
                let sl = limbs(s2, 64, 2);
                vals[0] = sl[0];
                vals[1] = sl[1];
                let sq = s2 * s2;
                if sq <= v {
                    let rem = &v - &sq;
                    let rl = limbs(&rem, 128, 2);
                    vals[2] = rl[0];
                    vals[3] = rl[1];
                    vals[4] = if s2 * 2u32 >= &rem + pow2(128) { Felt252::ONE } else { Felt252::ZERO };
                } else {
                    vals[2] = fsub(&v, &sq);
                    vals[3] = Felt252::ZERO;
                }
            };
            match k {
                0 => set(&mut vals, &(&s + 1u32)),
                1 => {
                    if s.is_zero() {
                        return None;
                    }
                    set(&mut vals, &(&s - 1u32))
                }
                2 => carry(&mut vals, 0, 64, false),
                3 => carry(&mut vals, 0, 64, true),
                4 => carry(&mut vals, 2, 128, false),
                5 => carry(&mut vals, 2, 128, true),
                _ => return None,
            }
            ints(vals.into_iter().enumerate().collect())
        }
        CoreHint::U256InvModN { b0, b1, n0, n1, .. } => {
            // outputs: g0_or_no_inv, g1_option, s_or_r0, s_or_r1, t_or_k0, t_or_k1
            let b: BigUint = ctx.val(b0)? + (ctx.val(b1)? << 128);
            let n: BigUint = ctx.val(n0)? + (ctx.val(n1)? << 128);
            let mut vals: Vec<Option<Felt252>> = (0..6).map(|i| ctx.int(i)).collect();
            let g0 = ctx.int(0)?;
            match k {
                0 | 1 => {
                    // Claim "no inverse" although there is one (or change the witness g): g = 1 or 2
                    // with b = g*s, n = g*t "approximately".
                    let g = BigUint::from(if k == 0 { 1u32 } else { 2u32 });
                    let sl = limbs(&(&b / &g), 128, 2);
                    let tl = limbs(&(&n / &g), 128, 2);
                    vals = vec![Some(f(&g)), Some(Felt252::ZERO), Some(sl[0]), Some(sl[1]), Some(tl[0]), Some(tl[1])];
                }
                2 => {
                    // Claim an inverse (g0 = 0) although the honest answer was "no inverse":
                    // r = 1, k = (b - 1) / n.
                    if g0 == Felt252::ZERO || n.is_zero() {
                        return None;
                    }
                    let kq = limbs(&((&b.max(BigUint::one()) - 1u32) / &n), 128, 2);
                    vals = vec![Some(Felt252::ZERO), None, Some(Felt252::ONE), Some(Felt252::ZERO), Some(kq[0]), Some(kq[1])];
                }
                3 => {
                    // inverse + n (another representative), k adjusted: r' = r + n, k' = k + b.
                    if g0 != Felt252::ZERO {
                        return None;
                    }
                    let r: BigUint = ctx.big(2)? + (ctx.big(3)? << 128);
                    let kk: BigUint = ctx.big(4)? + (ctx.big(5)? << 128);
                    let rl = limbs(&(&r + &n), 128, 2);
                    let kl = limbs(&(&kk + &b), 128, 2);
                    vals[2] = Some(rl[0]);
                    vals[3] = Some(rl[1]);
                    vals[4] = Some(kl[0]);
                    vals[5] = Some(kl[1]);
                }
                4 => {
                    // carry between the limbs of s_or_r
                    let mut v2: Vec<Felt252> = vec![ctx.int(2)?, ctx.int(3)?];
                    carry(&mut v2, 0, 128, false);
                    vals[2] = Some(v2[0]);
                    vals[3] = Some(v2[1]);
                }
                5 => {
                    let mut v2: Vec<Felt252> = vec![ctx.int(4)?, ctx.int(5)?];
                    carry(&mut v2, 0, 128, false);
                    vals[4] = Some(v2[0]);
                    vals[5] = Some(v2[1]);
                }
                _ => return None,
            }
            ints(vals.into_iter().enumerate().filter_map(|(i, v)| v.map(|v| (i, v))).collect())
        }
        CoreHint::AssertLeFindSmallArcs { a, b, .. } => {
            // outputs: rc[0..4] = (arc_i % c3, arc_i / c3, arc_j % c2, arc_j / c2) for the two
            // smallest arcs. Variants: decompose a different pair of arcs consistently (the excluded
            // arc flags that follow are then flipped with separate faults), or shift quotient and
            // remainder.
            let av = ctx.val(a)?;
            let bv = ctx.val(b)?;
            let c3 = BigUint::from(3544607988759775765608368578435044694_u128);
            let c2 = BigUint::from(5316911983139663648412552867652567041_u128);
            let arcs = [av.clone(), (f(&bv) - f(&av)).to_biguint(), (fneg(&BigUint::one()) - f(&bv)).to_biguint()];
            let pairs = [(0usize, 1usize), (0, 2), (1, 2), (1, 0)];
            let (i, j) = pairs[k % 4];
            let out = vec![&arcs[i] % &c3, &arcs[i] / &c3, &arcs[j] % &c2, &arcs[j] / &c2];
            if out.iter().any(|x| *x >= pow2(128)) {
                return None;
            }
            ints(out.iter().map(f).enumerate().collect())
        }
        CoreHint::RandomEcPoint { .. } => {
            let x = ctx.int(0)?;
            let y = ctx.int(1)?;
            match k {
                0 => ints(vec![(1, Felt252::ZERO - y)]),
                1 => ints(vec![(0, x + Felt252::ONE)]),
                2 => ints(vec![(1, Felt252::ZERO)]),
                3 => ints(vec![(0, Felt252::ZERO), (1, Felt252::ZERO)]),
                _ => None,
            }
        }
        CoreHint::FieldSqrt { val, .. } => {
            let v = f(&ctx.val(val)?);
            match k {
                // The root of the other branch (val vs 3*val), when it exists.
                0 => {
                    let r = (v * Felt252::THREE).sqrt()?;
                    ints(vec![(0, r)])
                }
                1 => {
                    let r = v.sqrt()?;
                    ints(vec![(0, std::cmp::max(r, Felt252::ZERO - r))])
                }
                _ => None,
            }
        }
        _ => None,
    }
}

// ---------------------------------------------------------------------------------------------
// The wrapper
// ---------------------------------------------------------------------------------------------

pub struct FaultyProver<'a> {
    pub inner: CairoHintProcessor<'a>,
    pub plan: Vec<Fault>,
    pub occ: usize,
    pub log: Vec<OccLog>,
    pub applied: Vec<AppliedLie>,
    /// Deterministic replacement for `rand::rng()` in `RandomEcPoint`.
    pub ec_seed: u64,
    /// A panic escaped the honest prover's own bookkeeping after a lie.
    pub prover_panicked: bool,
    pub keep_log: bool,
    /// VM steps executed so far / step budget of the run (a lie may send the program into a
    /// much longer execution; such runs are cut and reported as inconclusive, never as rejected).
    pub steps: usize,
    pub max_steps: usize,
}

impl<'a> FaultyProver<'a> {
    pub fn new(inner: CairoHintProcessor<'a>, plan: Vec<Fault>, ec_seed: u64) -> Self {
        FaultyProver {
            inner,
            plan,
            occ: 0,
            log: vec![],
            applied: vec![],
            ec_seed,
            prover_panicked: false,
            keep_log: true,
            steps: 0,
            max_steps: usize::MAX,
        }
    }
}

/// Lie constructions that panicked (counted in the evidence; such lies are not injected).
pub static STRATEGY_PANICS: std::sync::atomic::AtomicU64 = std::sync::atomic::AtomicU64::new(0);

fn builtin_segments(vm: &VirtualMachine) -> Vec<(isize, BuiltinName)> {
    vm.get_builtin_runners().iter().map(|b| (b.base() as isize, b.name())).collect()
}

fn show(v: &MaybeRelocatable) -> String {
    match v {
        MaybeRelocatable::Int(x) => x.to_biguint().to_string(),
        MaybeRelocatable::RelocatableValue(r) => format!("{}:{}", r.segment_index, r.offset),
    }
}

/// A curve point derived from a seed (replaces the only real randomness in the path).
fn seeded_ec_point(seed: u64) -> (Felt252, Felt252) {
    // y^2 = x^3 + x + beta
    let beta = Felt252::from_hex_unchecked(
        "0x6f21413efbe40de150e596d72f7a8c5609ad26c15c915c1f4cdfcb99cee9e89",
    );
    let mut rng = Rng::new(seed);
    loop {
        let x = f(&((BigUint::from(rng.next_u128()) << 123) + BigUint::from(rng.next_u64())));
        let rhs = x * x * x + x + beta;
        if let Some(y) = rhs.sqrt() {
            return (x, y);
        }
    }
}

impl HintProcessorLogic for FaultyProver<'_> {
    fn execute_hint(
        &mut self,
        vm: &mut VirtualMachine,
        exec_scopes: &mut ExecutionScopes,
        hint_data: &Box<dyn Any>,
    ) -> Result<(), HintError> {
        let hint = hint_data.downcast_ref::<Hint>().ok_or(HintError::WrongHintData)?;
        let Hint::Core(CoreHintBase::Core(h)) = hint else {
            // Starknet, external and deprecated hints are passed through untouched.
            return catch(&mut self.prover_panicked, || self.inner.execute_hint(vm, exec_scopes, hint_data));
        };
        let kind = hint_kind(h);
        let pc = vm.get_pc().offset;
        let step = self.steps;
        let addrs = output_cells(h, vm);
        let fresh: Vec<bool> = addrs.iter().map(|a| vm.get_maybe(a).is_none()).collect();
        let bsegs = builtin_segments(vm);
        let builtin_cell: Vec<Option<BuiltinName>> = addrs
            .iter()
            .map(|a| bsegs.iter().find(|(s, _)| *s == a.segment_index).map(|(_, n)| *n))
            .collect();

        // The honest hint, real code, with all its side effects.
        if let CoreHint::RandomEcPoint { x, y } = h {
            let (px, py) = seeded_ec_point(simcore::mix(self.ec_seed, self.occ as u64));
            vm.insert_value(cell_ref_to_relocatable(x, vm), px).map_err(HintError::Memory)?;
            vm.insert_value(cell_ref_to_relocatable(y, vm), py).map_err(HintError::Memory)?;
        } else {
            catch(&mut self.prover_panicked, || self.inner.execute_hint(vm, exec_scopes, hint_data))?;
        }
        let honest: Vec<Option<MaybeRelocatable>> = addrs.iter().map(|a| vm.get_maybe(a)).collect();

        let occ = self.occ;
        self.occ += 1;
        if let Some(fault) = self.plan.iter().find(|f| f.occ == occ).cloned() {
            let mut ctx = Ctx {
                hint: h,
                vm,
                honest: &honest,
                variant: fault.variant,
                rng: Rng::new(simcore::mix(fault.salt, occ as u64)),
            };
            // A panic in the simulator's own lie construction (an occurrence that is another hint
            // than the plan was written for, after an earlier lie changed the control flow) means
            // "this lie cannot be built here": nothing is injected. It must never reach the run-level
            // handler, which would read it as a failure to decode the program's result.
            let lies = std::panic::catch_unwind(std::panic::AssertUnwindSafe(|| {
                if fault.strat == "alg" {
                    algebraic(&mut ctx)
                } else if POINTER.contains(&fault.strat.as_str()) {
                    pointer(&fault.strat, &mut ctx)
                } else {
                    generic(&fault.strat, &mut ctx)
                }
            }))
            .unwrap_or_else(|_| {
                STRATEGY_PANICS.fetch_add(1, std::sync::atomic::Ordering::Relaxed);
                None
            });
            if let Some(lies) = lies {
                let mut cells = vec![];
                for (i, new) in lies {
                    let (Some(addr), Some(Some(old))) = (addrs.get(i), honest.get(i)) else { continue };
                    if !fresh[i] || *old == new {
                        continue;
                    }
                    // Cells in a builtin segment were validated on the honest insert and would not
                    // be re-validated: only propose values the builtin's rule accepts.
                    if let Some(b) = builtin_cell[i] {
                        let bound = match b {
                            BuiltinName::range_check => pow2(128),
                            BuiltinName::range_check96 => pow2(96),
                            _ => continue,
                        };
                        match &new {
                            MaybeRelocatable::Int(x) if x.to_biguint() < bound => {}
                            _ => continue,
                        }
                    }
                    if vm.delete_unaccessed(*addr).is_err() {
                        continue;
                    }
                    vm.insert_value(*addr, new.clone()).map_err(HintError::Memory)?;
                    cells.push((i, show(old), show(&new)));
                }
                if !cells.is_empty() {
                    self.applied.push(AppliedLie {
                        occ,
                        kind,
                        pc,
                        step,
                        strat: fault.strat.clone(),
                        variant: fault.variant,
                        cells,
                    });
                }
            }
        }
        if self.keep_log {
            self.log.push(OccLog {
                kind,
                pc,
                step,
                n_outs: addrs.len(),
                fresh,
                builtin_cell: builtin_cell.iter().map(|b| b.is_some()).collect(),
                honest,
            });
        }
        Ok(())
    }

    #[allow(clippy::disallowed_types)]
    fn compile_hint(
        &self,
        hint_code: &str,
        a: &ApTracking,
        r: &std::collections::HashMap<String, usize>,
        refs: &[HintReference],
        s: &[String],
        c: std::sync::Arc<std::collections::HashMap<String, Felt252>>,
    ) -> Result<Box<dyn Any>, VirtualMachineError> {
        self.inner.compile_hint(hint_code, a, r, refs, s, c)
    }
}

/// Runs the honest prover's code; a panic in it (its bookkeeping cannot continue after a lie) is
/// turned into a hint error: no trace exists for such a run.
fn catch(
    flag: &mut bool,
    f: impl FnOnce() -> Result<(), HintError>,
) -> Result<(), HintError> {
    match std::panic::catch_unwind(AssertUnwindSafe(f)) {
        Ok(r) => r,
        Err(_) => {
            *flag = true;
            Err(HintError::CustomHint("honest prover code panicked after a lie".into()))
        }
    }
}

impl ResourceTracker for FaultyProver<'_> {
    fn consumed(&self) -> bool {
        self.steps >= self.max_steps || self.inner.consumed()
    }
    fn consume_step(&mut self) {
        self.steps += 1;
        self.inner.consume_step()
    }
    fn get_n_steps(&self) -> Option<usize> {
        self.inner.get_n_steps()
    }
    fn run_resources(&self) -> &RunResources {
        self.inner.run_resources()
    }
}

impl StarknetHintProcessor for FaultyProver<'_> {
    fn take_starknet_state(&mut self) -> StarknetState {
        self.inner.take_starknet_state()
    }
    fn take_syscalls_used_resources(&mut self) -> StarknetExecutionResources {
        self.inner.take_syscalls_used_resources()
    }
}
