use std::any::Any;
use std::path::PathBuf;
use std::time::Instant;

use cairo_lang_casm::hints::{CoreHint, CoreHintBase, Hint};
use cairo_lang_casm::operand::CellRef;
use cairo_lang_compiler::db::RootDatabase;
use cairo_lang_compiler::diagnostics::DiagnosticsReporter;
use cairo_lang_compiler::project::setup_project;
use cairo_lang_compiler::{CompilerConfig, compile_prepared_db_program};
use cairo_lang_filesystem::db::init_dev_corelib;
use cairo_lang_filesystem::ids::CrateInput;
use cairo_lang_runner::casm_run::{CairoHintProcessor, StarknetHintProcessor, StarknetState, cell_ref_to_relocatable};
use cairo_lang_runner::{Arg, RunResultValue, SierraCasmRunner, StarknetExecutionResources};
use cairo_vm::hint_processor::hint_processor_definition::{HintProcessorLogic, HintReference};
use cairo_vm::serde::deserialize_program::ApTracking;
use cairo_vm::types::exec_scope::ExecutionScopes;
use cairo_vm::types::relocatable::{MaybeRelocatable, Relocatable};
use cairo_vm::vm::errors::hint_errors::HintError;
use cairo_vm::vm::errors::vm_errors::VirtualMachineError;
use cairo_vm::vm::runners::cairo_runner::{ResourceTracker, RunResources};
use cairo_vm::vm::vm_core::VirtualMachine;
use starknet_types_core::felt::Felt as Felt252;

struct Faulty<'a> {
    inner: CairoHintProcessor<'a>,
    occ: usize,
    fault_at: Option<(usize, usize, i64)>, // (occurrence, output idx, delta)
    log: Vec<(String, Vec<Option<MaybeRelocatable>>)>,
    injected: bool,
}

fn outs(h: &CoreHint) -> Vec<&CellRef> {
    match h {
        CoreHint::AllocSegment { dst } => vec![dst],
        CoreHint::TestLessThan { dst, .. } | CoreHint::TestLessThanOrEqual { dst, .. } | CoreHint::TestLessThanOrEqualAddress { dst, .. } => vec![dst],
        CoreHint::WideMul128 { high, low, .. } => vec![high, low],
        CoreHint::DivMod { quotient, remainder, .. } => vec![quotient, remainder],
        CoreHint::Uint256DivMod { quotient0, quotient1, remainder0, remainder1, .. } => vec![quotient0, quotient1, remainder0, remainder1],
        CoreHint::SquareRoot { dst, .. } => vec![dst],
        CoreHint::LinearSplit { x, y, .. } => vec![x, y],
        CoreHint::GetSegmentArenaIndex { dict_index, .. } => vec![dict_index],
        CoreHint::InitSquashData { big_keys, first_key, .. } => vec![big_keys, first_key],
        CoreHint::ShouldSkipSquashLoop { should_skip_loop } => vec![should_skip_loop],
        CoreHint::GetCurrentAccessDelta { index_delta_minus1 } => vec![index_delta_minus1],
        CoreHint::ShouldContinueSquashLoop { should_continue } => vec![should_continue],
        CoreHint::GetNextDictKey { next_key } => vec![next_key],
        CoreHint::AssertLeIsFirstArcExcluded { skip_exclude_a_flag } => vec![skip_exclude_a_flag],
        CoreHint::AssertLeIsSecondArcExcluded { skip_exclude_b_minus_a } => vec![skip_exclude_b_minus_a],
        CoreHint::AllocConstantSize { dst, .. } => vec![dst],
        _ => vec![],
    }
}

impl HintProcessorLogic for Faulty<'_> {
    fn execute_hint(&mut self, vm: &mut VirtualMachine, exec_scopes: &mut ExecutionScopes, hint_data: &Box<dyn Any>) -> Result<(), HintError> {
        let hint = hint_data.downcast_ref::<Hint>().ok_or(HintError::WrongHintData)?;
        let (name, addrs): (String, Vec<Relocatable>) = match hint {
            Hint::Core(CoreHintBase::Core(h)) => {
                let n = format!("{h:?}");
                (n.split(|c: char| !c.is_alphanumeric()).next().unwrap().to_string(), outs(h).into_iter().map(|c| cell_ref_to_relocatable(c, vm)).collect())
            }
            _ => ("other".into(), vec![]),
        };
        let pre: Vec<bool> = addrs.iter().map(|a| vm.get_maybe(a).is_none()).collect();
        self.inner.execute_hint(vm, exec_scopes, hint_data)?;
        let honest: Vec<Option<MaybeRelocatable>> = addrs.iter().map(|a| vm.get_maybe(a)).collect();
        if let Some((o, idx, delta)) = self.fault_at {
            if o == self.occ && idx < addrs.len() && pre[idx] {
                if let Some(MaybeRelocatable::Int(v)) = &honest[idx] {
                    vm.delete_unaccessed(addrs[idx]).map_err(|e| HintError::Memory(e))?;
                    vm.insert_value(addrs[idx], *v + Felt252::from(delta)).map_err(|e| HintError::Memory(e))?;
                    self.injected = true;
                }
            }
        }
        self.log.push((name, honest));
        self.occ += 1;
        Ok(())
    }
    #[allow(clippy::disallowed_types)]
    fn compile_hint(&self, hint_code: &str, a: &ApTracking, r: &std::collections::HashMap<String, usize>, refs: &[HintReference], s: &[String], c: std::sync::Arc<std::collections::HashMap<String, Felt252>>) -> Result<Box<dyn Any>, VirtualMachineError> {
        self.inner.compile_hint(hint_code, a, r, refs, s, c)
    }
}
impl ResourceTracker for Faulty<'_> {
    fn consumed(&self) -> bool { self.inner.consumed() }
    fn consume_step(&mut self) { self.inner.consume_step() }
    fn get_n_steps(&self) -> Option<usize> { self.inner.get_n_steps() }
    fn run_resources(&self) -> &RunResources { self.inner.run_resources() }
}
impl StarknetHintProcessor for Faulty<'_> {
    fn take_starknet_state(&mut self) -> StarknetState { self.inner.take_starknet_state() }
    fn take_syscalls_used_resources(&mut self) -> StarknetExecutionResources { self.inner.take_syscalls_used_resources() }
}

fn main() {
    std::panic::set_hook(Box::new(|_| {}));
    let mut db = RootDatabase::builder().build().unwrap();
    init_dev_corelib(&mut db, PathBuf::from("/repo/corelib/src"));
    let main = setup_project(&mut db, &PathBuf::from("/work/spike/cairo/lib.cairo")).unwrap();
    let mut diags = String::new();
    let cfg = CompilerConfig { replace_ids: true, diagnostics_reporter: DiagnosticsReporter::write_to_string(&mut diags).with_crates(&main), ..Default::default() };
    let ids = CrateInput::into_crate_ids(&db, main.clone());
    let prog = compile_prepared_db_program(&db, ids, cfg).unwrap_or_else(|e| panic!("{e}\n{diags}"));
    let runner = SierraCasmRunner::new(prog, Some(Default::default()), Default::default(), None).unwrap();
    let cases: Vec<(&str, Vec<u128>)> = vec![
        ("add_u8", vec![200, 55]), ("add_u8", vec![200, 56]), ("sub_u64", vec![5, 6]), ("div_u128", vec![1000, 7]),
        ("mul_u256", vec![u128::MAX, 3, 7, 0]), ("div_u256", vec![u128::MAX, 3, 7, 0]), ("sqrt_u64", vec![1 << 40]),
        ("cast_u128_u8", vec![255]), ("cast_u128_u8", vec![256]), ("lt_u32", vec![3, 4]), ("dict_sum", vec![1, 2]), ("arr_sum", vec![5]),
    ];
    let mut total_runs = 0usize;
    let t0 = Instant::now();
    for (name, args) in cases {
        let func = runner.find_function(&format!("::{name}")).unwrap();
        let run = |fault: Option<(usize, usize, i64)>| {
            let (hp, ctx) = runner.prepare_starknet_context(func, args.iter().map(|a| Arg::Value(Felt252::from(*a))).collect(), Some(10_000_000), StarknetState::default()).unwrap();
            let mut f = Faulty { inner: hp, occ: 0, fault_at: fault, log: vec![], injected: false };
            let r = std::panic::catch_unwind(std::panic::AssertUnwindSafe(|| runner.run_function_with_prepared_starknet_context(func, &mut f, ctx)));
            let r = match r { Ok(r) => r.map(|r| (r.value, r.gas_counter)).map_err(|e| e.to_string()), Err(_) => Err("PANIC".to_string()) };
            (r, f.log, f.injected)
        };
        let (honest, log, _) = run(None);
        total_runs += 1;
        let (hv, hg) = honest.expect("honest run failed");
        let kinds: Vec<&str> = log.iter().map(|l| l.0.as_str()).collect();
        let mut fail = 0; let mut same = 0; let mut diff = 0; let mut gasdiff = 0; let mut noinj = 0;
        for occ in 0..log.len() {
            for idx in 0..log[occ].1.len().max(1) {
                for delta in [1i64, -1, 1 << 40] {
                    let (r, _, inj) = run(Some((occ, idx, delta)));
                    total_runs += 1;
                    if !inj { noinj += 1; continue; }
                    match r {
                        Err(e) => { fail += 1; if e == "PANIC" { eprintln!("prover panic {name} occ {occ} idx {idx}"); } }
                        Ok((v, g)) => { if v == hv { same += 1; if g != hg { gasdiff += 1; } } else { diff += 1; eprintln!("DIFF {name} occ {occ} idx {idx} delta {delta}: {:?} vs {:?}", v, hv); } }
                    }
                }
            }
        }
        let hv_s = match &hv { RunResultValue::Success(v) => format!("ok{:?}", v.iter().map(|x| x.to_string()).collect::<Vec<_>>()), RunResultValue::Panic(v) => format!("panic{:?}", v.iter().map(|x| x.to_string()).collect::<Vec<_>>()) };
        println!("{name}{args:?} -> {hv_s} hints={} fail={fail} same={same} (gasdiff {gasdiff}) DIFF={diff} noinj={noinj} kinds={:?}", log.len(), kinds);
    }
    println!("{} runs in {:?}", total_runs, t0.elapsed());
}
