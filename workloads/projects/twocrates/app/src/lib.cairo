mod report;

use mathlib::ops::{add, scale_by};
use mathlib::{Fraction, FractionTrait, SCALE};

fn main() -> u64 {
    let half = Fraction { num: 1, den: 2 };
    let third = Fraction { num: 1, den: 3 };
    let total = add(half, scale_by(third, 2));
    total.value() + SCALE + report::count(array![half, third].span())
}

fn inverse_twice(f: Fraction) -> Fraction {
    f.inverse().inverse()
}
