//! C13 — incremental recompilation equals compiling from scratch: simulated editor histories
//! against one long-lived database, judged against a fresh database on the same contents.

use std::collections::{BTreeMap, BTreeSet, HashMap};
use std::path::{Path, PathBuf};
use std::sync::Mutex;
use std::time::Instant;

use serde::{Deserialize, Serialize};
use serde_json::{Value, json};
use simcore::{Counters, Evidence, KnownFindings, Rng, fnv64, harness_error, hex64, mix, par_map};

use crate::dbx::{self, Obs, SeqExecutor, Sut};
use crate::edits;
use crate::project::Project;

#[derive(Clone, Debug, Serialize, Deserialize, PartialEq)]
#[serde(tag = "op")]
pub enum Op {
    /// Editor buffer change: `file_overrides[file] = content`.
    SetOverride { file: String, content: String, kind: String },
    /// Editor closes the buffer: the override is removed, the disk content counts again.
    UnsetOverride { file: String },
    /// The file on disk changes (save / torn save / external tool), followed by a revision bump.
    DiskWrite { file: String, content: String, kind: String },
    DiskDelete { file: String },
    /// A query whose result is thrown away (only its effect on memo state matters).
    Query { kind: u8, pick: usize, snapshot: bool },
    /// Full observation on a snapshot, cancelled when the k-th query starts executing.
    CancelledQuery { k: u64 },
    /// Parallel warm-up of diagnostics through the H1 task executor.
    Warmup { seed: u64, workers: usize },
    /// A compiler flag changes (add_withdraw_gas / panic_backtrace / unsafe_panic).
    SetFlag { which: u8, value: bool },
    /// Compare the long-lived database with a fresh one.
    Check,
    /// Compare the in-process fresh database with a fresh database in a NEW PROCESS on the same
    /// contents: "a fresh compiler instance" of the property is a new process, and process-global
    /// state of the compiler (a `static` cache) would otherwise be shared by both sides.
    FreshProcessCheck,
}

#[derive(Clone, Debug)]
pub struct Violation {
    pub class: String,
    pub detail: String,
    pub at_op: usize,
    /// Specific descriptor of what differs (diagnostic `file:code` items / functions whose
    /// `withdraw_gas` count differs), used to match listed findings.
    pub items: String,
}

static KNOWN: std::sync::OnceLock<KnownFindings> = std::sync::OnceLock::new();

#[derive(Default)]
pub struct RunStats {
    pub known_hits: BTreeSet<String>,
    pub counters: Counters,
    pub transitions: BTreeSet<String>,
    pub checks: u64,
    pub ops: u64,
    pub queries_executed_incremental: u64,
    pub obs_hashes: Vec<String>,
}

/// Model of what the simulator did to the world: disk and overrides.
#[derive(Clone, Default)]
struct World {
    disk: BTreeMap<String, Option<String>>,
    overrides: BTreeMap<String, String>,
    flags: BTreeMap<u8, bool>,
}
impl World {
    fn effective(&self, file: &str) -> Option<String> {
        self.overrides.get(file).cloned().or_else(|| self.disk.get(file).cloned().flatten())
    }
    fn key(&self, starknet: bool, project: &str) -> u64 {
        // The project identity (crate names, settings, plugin set) is part of the key: two
        // single-file projects can reach identical file contents (both truncated to nothing).
        let mut s = format!("P{project}\u{3}");
        for (k, v) in &self.disk {
            s.push_str(&format!("D{k}\u{1}{:?}\u{2}", v));
        }
        for (k, v) in &self.overrides {
            s.push_str(&format!("O{k}\u{1}{v}\u{2}"));
        }
        for (k, v) in &self.flags {
            s.push_str(&format!("F{k}={v}\u{2}"));
        }
        fnv64(s.as_bytes()) ^ starknet as u64
    }
}

fn state_class(o: &Result<Obs, String>) -> &'static str {
    match o {
        Err(_) => "panic",
        Ok(o) => {
            let d = &o.diagnostics;
            if d.contains("Missing token") || d.contains("Skipped tokens") || d.contains("Unterminated") {
                "syntax_error"
            } else if d.contains("error") {
                "semantic_error"
            } else if d.contains("warning") {
                "warnings"
            } else {
                "clean"
            }
        }
    }
}

static FRESH_MEMO: Mutex<Option<HashMap<u64, Result<Obs, String>>>> = Mutex::new(None);
pub static FRESH_HITS: std::sync::atomic::AtomicU64 = std::sync::atomic::AtomicU64::new(0);
pub static FRESH_MISSES: std::sync::atomic::AtomicU64 = std::sync::atomic::AtomicU64::new(0);

fn fresh_observation(root: &Path, world: &World, starknet: bool, project: &str, use_memo: bool) -> Result<Obs, String> {
    let key = world.key(starknet, project);
    if use_memo {
        if let Some(v) = FRESH_MEMO.lock().unwrap().get_or_insert_with(HashMap::new).get(&key) {
            FRESH_HITS.fetch_add(1, std::sync::atomic::Ordering::Relaxed);
            return v.clone();
        }
    }
    FRESH_MISSES.fetch_add(1, std::sync::atomic::Ordering::Relaxed);
    let r = (|| {
        let mut sut = Sut::new(root, starknet)?;
        for (k, v) in &world.flags {
            sut.set_flag(*k, *v);
        }
        for (f, c) in &world.overrides {
            sut.set_override(f, Some(c.clone()));
        }
        dbx::observe_in(&sut.db, &sut.main, root)
    })();
    if use_memo {
        FRESH_MEMO.lock().unwrap().get_or_insert_with(HashMap::new).insert(key, r.clone());
    }
    r
}

/// A fresh database on `world` in a new process (`simdb c13-fresh`). `None`: the child did not
/// deliver (killed, timed out) - inconclusive, never an observation.
fn fresh_in_new_process(project: &Project, world: &World) -> Option<Result<Obs, String>> {
    use std::io::Write;
    let req = json!({"project": project.to_json(), "disk": world.disk, "overrides": world.overrides, "flags": world.flags.iter().map(|(k, v)| (k.to_string(), *v)).collect::<BTreeMap<String, bool>>()});
    let me = std::env::current_exe().ok()?;
    let mut child = std::process::Command::new(me)
        .arg("c13-fresh")
        .stdin(std::process::Stdio::piped())
        .stdout(std::process::Stdio::piped())
        .stderr(std::process::Stdio::null())
        .spawn()
        .ok()?;
    child.stdin.take()?.write_all(req.to_string().as_bytes()).ok()?;
    let out = child.wait_with_output().ok()?;
    let text = String::from_utf8_lossy(&out.stdout);
    let line = text.lines().rev().find(|l| l.starts_with("{\"c13-fresh\""))?;
    let v: Value = serde_json::from_str(line).ok()?;
    let r = &v["c13-fresh"];
    if let Some(p) = r["panic"].as_str() {
        return Some(Err(p.to_string()));
    }
    Some(Ok(Obs { diagnostics: r["diagnostics"].as_str()?.to_string(), sierra: r["sierra"].as_str()?.to_string(), locations: r["locations"].as_str()?.to_string() }))
}

/// Child-process entry point of [`fresh_in_new_process`].
pub fn fresh_child() -> i32 {
    let mut s = String::new();
    std::io::Read::read_to_string(&mut std::io::stdin(), &mut s).unwrap();
    let v: Value = serde_json::from_str(&s).unwrap_or_else(|e| harness_error(&format!("c13-fresh request: {e}")));
    let project = Project::from_json(&v["project"]).unwrap_or_else(|| harness_error("c13-fresh: bad project"));
    let disk: BTreeMap<String, Option<String>> = serde_json::from_value(v["disk"].clone()).unwrap_or_else(|e| harness_error(&format!("c13-fresh disk: {e}")));
    let overrides: BTreeMap<String, String> = serde_json::from_value(v["overrides"].clone()).unwrap_or_else(|e| harness_error(&format!("c13-fresh overrides: {e}")));
    let flags: BTreeMap<String, bool> = serde_json::from_value(v["flags"].clone()).unwrap_or_else(|e| harness_error(&format!("c13-fresh flags: {e}")));
    let scratch = scratch_dir("freshproc");
    let _ = std::fs::remove_dir_all(&scratch);
    project.materialise(&scratch);
    for (f, c) in &disk {
        write_disk(&scratch, f, c.as_deref());
    }
    let r = (|| {
        let mut sut = Sut::new(&scratch, project.starknet)?;
        for (k, v) in &flags {
            sut.set_flag(k.parse().unwrap_or(0), *v);
        }
        for (f, c) in &overrides {
            sut.set_override(f, Some(c.clone()));
        }
        dbx::observe_in(&sut.db, &sut.main, &scratch)
    })();
    let _ = std::fs::remove_dir_all(&scratch);
    match r {
        Ok(o) => println!("{}", json!({"c13-fresh": {"diagnostics": o.diagnostics, "sierra": o.sierra, "locations": o.locations}})),
        Err(p) => println!("{}", json!({"c13-fresh": {"panic": p}})),
    }
    0
}

fn write_disk(root: &Path, file: &str, content: Option<&str>) {
    let p = root.join(file);
    match content {
        Some(c) => {
            if let Some(d) = p.parent() {
                let _ = std::fs::create_dir_all(d);
            }
            std::fs::write(&p, c).unwrap_or_else(|e| harness_error(&format!("scratch write {p:?}: {e}")));
        }
        None => {
            let _ = std::fs::remove_file(&p);
        }
    }
}

/// Executes a history against a long-lived database. `use_memo`: memoise fresh references.
pub fn run_history(project: &Project, ops: &[Op], scratch: &Path, use_memo: bool, stats: &mut RunStats) -> Option<Violation> {
    let _ = std::fs::remove_dir_all(scratch);
    project.materialise(scratch);
    let mut world = World::default();
    for (f, c) in &project.files {
        if f.ends_with(".cairo") {
            world.disk.insert(f.clone(), Some(c.clone()));
        }
    }
    let mut sut = match Sut::new(scratch, project.starknet) {
        Ok(s) => s,
        Err(e) => harness_error(&format!("cannot set up project {}: {e}", project.name)),
    };
    let mut touch = 0u64;
    let mut prev_class = "initial";
    let mut inv_rng = Rng::new(fnv64(project.name.as_bytes()));
    let mut result = None;
    for (i, op) in ops.iter().enumerate() {
        stats.ops += 1;
        match op {
            Op::SetOverride { file, content, kind } => {
                sut.set_override(file, Some(content.clone()));
                world.overrides.insert(file.clone(), content.clone());
                stats.counters.inc(&format!("edit/{kind}"));
            }
            Op::UnsetOverride { file } => {
                sut.set_override(file, None);
                world.overrides.remove(file);
                stats.counters.inc("edit/unset_override");
                if world.disk.get(file).map(|d| d.as_ref() != project.files.get(file)).unwrap_or(false) {
                    stats.counters.inc("probe/unset_after_disk_change");
                }
            }
            Op::DiskWrite { file, content, kind } => {
                write_disk(scratch, file, Some(content));
                world.disk.insert(file.clone(), Some(content.clone()));
                touch += 1;
                sut.set_override("__verif_touch__.cairo", Some(format!("// {touch}")));
                world.overrides.insert("__verif_touch__.cairo".into(), format!("// {touch}"));
                stats.counters.inc(&format!("disk/{kind}"));
            }
            Op::DiskDelete { file } => {
                write_disk(scratch, file, None);
                world.disk.insert(file.clone(), None);
                touch += 1;
                sut.set_override("__verif_touch__.cairo", Some(format!("// {touch}")));
                world.overrides.insert("__verif_touch__.cairo".into(), format!("// {touch}"));
                stats.counters.inc("disk/delete");
            }
            Op::SetFlag { which, value } => {
                sut.set_flag(*which, *value);
                world.flags.insert(*which % 3, *value);
                stats.counters.inc(&format!("flag/{}", ["add_withdraw_gas", "panic_backtrace", "unsafe_panic"][(*which % 3) as usize]));
            }
            Op::Query { kind, pick, snapshot } => {
                let r = std::panic::catch_unwind(std::panic::AssertUnwindSafe(|| {
                    if *snapshot {
                        let snap = sut.db.snapshot();
                        dbx::partial_query(&snap, &sut.main, *kind, *pick);
                    } else {
                        dbx::partial_query(&sut.db, &sut.main, *kind, *pick);
                    }
                }));
                stats.counters.inc(if *snapshot { "query/partial_on_snapshot" } else { "query/partial" });
                if r.is_err() {
                    stats.counters.inc("query/partial_panicked");
                }
            }
            Op::CancelledQuery { k } => {
                let main = sut.main.clone();
                let r = std::panic::catch_unwind(std::panic::AssertUnwindSafe(|| {
                    dbx::with_cancellation(&sut.db, *k, |snap| {
                        let (_d, errs) = dbx::diagnostics_of(snap, &main);
                        if !errs {
                            let _ = dbx::sierra_of(snap, &main);
                        }
                    })
                }));
                match r {
                    Ok((fired, done)) => {
                        stats.counters.inc("cancel/attempted");
                        if fired && done.is_none() {
                            stats.counters.inc("cancel/landed_mid_query");
                        } else if done.is_some() {
                            stats.counters.inc("cancel/query_completed_first");
                        }
                    }
                    Err(_) => stats.counters.inc("cancel/other_panic"),
                }
            }
            Op::Warmup { seed, workers } => {
                let ex = SeqExecutor::new(*seed, *workers, 0);
                cairo_lang_utils::verif_par::set_executor(Some(ex.clone()));
                let main = sut.main.clone();
                let r = std::panic::catch_unwind(std::panic::AssertUnwindSafe(|| {
                    let mut s = String::new();
                    let mut rep = cairo_lang_compiler::diagnostics::DiagnosticsReporter::write_to_string(&mut s).with_crates(&main).allow_warnings();
                    let _ = cairo_lang_compiler::ensure_diagnostics(&sut.db, &mut rep);
                }));
                cairo_lang_utils::verif_par::set_executor(None);
                stats.counters.inc("warmup/runs");
                stats.counters.add("warmup/tasks", ex.tasks_run.get());
                if r.is_err() {
                    stats.counters.inc("warmup/panicked");
                }
            }
            Op::FreshProcessCheck => {
                let ident = format!("{}:{}", project.name, project.files.get("cairo_project.toml").map(|s| s.as_str()).unwrap_or(""));
                let here = fresh_observation(scratch, &world, project.starknet, &ident, use_memo);
                match fresh_in_new_process(project, &world) {
                    None => stats.counters.inc("fresh_process/inconclusive"),
                    Some(there) => {
                        stats.counters.inc("fresh_process/compared");
                        let same = match (&here, &there) {
                            (Ok(a), Ok(b)) => a == b,
                            (Err(_), Err(_)) => true,
                            _ => false,
                        };
                        if !same {
                            let detail = match (&here, &there) {
                                (Ok(a), Ok(b)) => a.first_difference(b).replace("incremental=", "in-process=").replace("fresh=", "new-process="),
                                (Err(p), _) => format!("in-process fresh database panicked ({p}), the one in a new process did not"),
                                (_, Err(p)) => format!("fresh database in a new process panicked ({p}), the in-process one did not"),
                            };
                            result = Some(Violation { class: "fresh-process-differs".into(), detail, at_op: i, items: String::new() });
                            break;
                        }
                    }
                }
            }
            Op::Check => {
                stats.checks += 1;
                let before = dbx::exec_count();
                let inc = dbx::observe_in(&sut.db, &sut.main, scratch);
                stats.queries_executed_incremental += dbx::exec_count() - before;
                let fresh = fresh_observation(scratch, &world, project.starknet, &format!("{}:{}", project.name, project.files.get("cairo_project.toml").map(|s| s.as_str()).unwrap_or("")), use_memo);
                let class = state_class(&fresh);
                stats.counters.inc(&format!("state/{class}"));
                stats.transitions.insert(format!("{prev_class}->{class}"));
                prev_class = class;
                stats.obs_hashes.push(match &inc {
                    Ok(o) => hex64(o.hash()),
                    Err(e) => format!("panic:{}", hex64(fnv64(e.as_bytes()))),
                });
                let v = match (&inc, &fresh) {
                    (Ok(a), Ok(b)) => {
                        if a == b {
                            None
                        } else {
                            let which = if a.diagnostics != b.diagnostics {
                                "diagnostics-differ"
                            } else if a.sierra != b.sierra {
                                "sierra-differs"
                            } else {
                                "locations-differ"
                            };
                            let items = if a.diagnostics != b.diagnostics {
                                dbx::diag_diff_items(&a.diagnostics, &b.diagnostics).join(",")
                            } else if a.sierra != b.sierra {
                                let w = dbx::sierra_withdraw_gas_items(&a.sierra, &b.sierra);
                                if w.is_empty() { "other".into() } else { format!("withdraw_gas@{}", w.join(",withdraw_gas@")) }
                            } else {
                                String::new()
                            };
                            Some(Violation { class: which.into(), detail: a.first_difference(b), at_op: i, items })
                        }
                    }
                    (Err(p), Ok(_)) => Some(Violation { class: "panic-after-history".into(), detail: format!("incremental database panicked: {p}"), at_op: i, items: String::new() }),
                    (Ok(_), Err(p)) => Some(Violation { class: "fresh-panics-incremental-does-not".into(), detail: format!("fresh database panicked: {p}"), at_op: i, items: String::new() }),
                    // Both panic on these contents: a front-end totality matter (C09), not C13.
                    (Err(_), Err(_)) => {
                        stats.counters.inc("state/both_panic_skipped");
                        None
                    }
                };
                if v.is_none() && inc.is_ok() {
                    let inv_seed = inv_rng.next_u64();
                    match dbx::syntax_invariants(&sut.db, &sut.main, &mut Rng::new(inv_seed), 12) {
                        Ok(n) => stats.counters.add("syntax_invariant_nodes_checked", n as u64),
                        Err(e) => {
                            // Only a C13 matter when a fresh database on the same contents does not
                            // show the same thing (otherwise it is a property of the parser/plugins
                            // on this text, whatever the history).
                            let fresh_same = Sut::new(scratch, project.starknet)
                                .map(|mut f| {
                                    for (k, v) in &world.flags {
                                        f.set_flag(*k, *v);
                                    }
                                    for (file, c) in &world.overrides {
                                        f.set_override(file, Some(c.clone()));
                                    }
                                    dbx::syntax_invariants(&f.db, &f.main, &mut Rng::new(inv_seed), 12).is_err()
                                })
                                .unwrap_or(false);
                            if fresh_same {
                                stats.counters.inc("syntax_invariant_fails_on_fresh_too_skipped");
                            } else {
                                result = Some(Violation { class: "syntax-invariant".into(), detail: e, at_op: i, items: String::new() });
                                break;
                            }
                        }
                    }
                }
                if let Some(v) = v {
                    // A difference explained by a listed finding is counted and the history goes on.
                    if let Some(k) = KNOWN.get_or_init(KnownFindings::load).lookup("C13", &format!("{}|{}|{}", v.class, project.name, v.items)) {
                        stats.counters.inc("checks_explained_by_listed_findings");
                        stats.known_hits.insert(k.what.clone());
                    } else {
                        result = Some(v);
                        break;
                    }
                }
            }
        }
    }
    drop(sut);
    let _ = std::fs::remove_dir_all(scratch);
    result
}

/// Generates a history from the PRNG.
pub fn generate(project: &Project, seed: u64, max_len: usize, check_every_step: bool) -> Vec<Op> {
    let mut rng = Rng::stream(seed, "history");
    let files: Vec<String> = project.files.keys().filter(|f| f.ends_with(".cairo")).cloned().collect();
    // Swarm: a subset of edit kinds per history.
    let mut enabled: Vec<&'static str> = edits::EDIT_KINDS.iter().copied().filter(|_| rng.chance(3, 5)).collect();
    if enabled.len() < 3 {
        enabled = edits::EDIT_KINDS.to_vec();
    }
    // A third of the histories stays close to compiling programs (edits that rarely break the
    // build, frequent reverts): defects of the later stages (lowering, Sierra) are only visible
    // while the project still compiles.
    let gentle = rng.chance(1, 3);
    if gentle {
        let safe = [
            "insert_comment_line", "insert_blank_lines", "reindent_line", "append_trailing_comment", "swap_adjacent_lines",
            "swap_adjacent_items", "rename_everywhere", "change_literal", "move_item", "insert_doc_comment", "prepend_header",
            "toggle_pub", "edit_string_literal", "shift_space_in_line", "change_attribute", "add_variant_or_member",
        ];
        enabled = edits::EDIT_KINDS.iter().copied().filter(|k| safe.contains(k)).filter(|_| rng.chance(4, 5)).collect();
        if enabled.is_empty() {
            enabled = vec!["insert_comment_line", "change_attribute"];
        }
    }
    // Experiments: restrict the edit kinds (never set by the registered checks).
    if let Ok(only) = std::env::var("VERIF_C13_ONLY_KINDS") {
        let v: Vec<&'static str> = edits::EDIT_KINDS.iter().copied().filter(|k| only.split(',').any(|o| o == *k)).collect();
        if !v.is_empty() {
            enabled = v;
        }
    }
    // Re-ordering edits (members, variants, statements, items) get double weight: they are the
    // only edits that keep every piece of text and change nothing but an order.
    for k in ["swap_adjacent_lines", "swap_adjacent_items", "shift_space_in_line", "change_attribute"] {
        if enabled.contains(&k) {
            enabled.push(k);
        }
    }
    let len = 3 + rng.below(max_len.saturating_sub(2).max(1));
    let p_query = 10 + rng.below(50) as u32;
    let p_check = if check_every_step { 100 } else { 30 + rng.below(60) as u32 };
    let mut world = World::default();
    for f in &files {
        world.disk.insert(f.clone(), Some(project.files[f].clone()));
    }
    let mut last_good: BTreeMap<String, String> = BTreeMap::new();
    let mut ops = vec![];
    if rng.chance(1, 2) {
        ops.push(Op::Check);
    }
    // The crate root (the file that declares the modules) and a module that does not exist yet.
    let root_file = files.iter().find(|f| f.ends_with("lib.cairo")).cloned().unwrap_or_else(|| files[0].clone());
    let extra_file = root_file.replace("lib.cairo", "verif_extra.cairo");
    let mut n_edits = 0;
    let mut guard = 0;
    while n_edits < len && guard < 1000 {
        guard += 1;
        let mut file = files[rng.below(files.len())].clone();
        // Module-structure edits: declare a new module (with or without giving it a file), give
        // the file later, remove the declaration again, edit the new module.
        let declared = world.effective(&root_file).map(|c| c.contains("mod verif_extra;")).unwrap_or(false);
        let has_extra = world.overrides.contains_key(&extra_file);
        if rng.chance(1, 14) {
            let cur = world.effective(&root_file).unwrap_or_default();
            let (kind, f, content) = match (declared, has_extra, rng.below(3)) {
                (false, _, _) => ("declare_new_module", root_file.clone(), format!("mod verif_extra;\n{cur}")),
                (true, false, _) => (
                    "create_new_module_file",
                    extra_file.clone(),
                    "pub fn extra_value() -> felt252 {\n    41\n}\n\nfn extra_bad() -> u8 {\n    let unused_in_extra = 1;\n    256\n}\n".to_string(),
                ),
                (true, true, 0) => ("remove_module_declaration", root_file.clone(), cur.replacen("mod verif_extra;\n", "", 1)),
                (true, true, _) => {
                    file = extra_file.clone();
                    ("", String::new(), String::new())
                }
            };
            if !kind.is_empty() {
                world.overrides.insert(f.clone(), content.clone());
                ops.push(Op::SetOverride { file: f, content, kind: kind.into() });
                n_edits += 1;
                if (rng.below(100) as u32) < p_check {
                    ops.push(Op::Check);
                }
                continue;
            }
        }
        if rng.chance(1, 40) {
            ops.push(Op::SetFlag { which: rng.below(3) as u8, value: rng.chance(1, 2) });
            if (rng.below(100) as u32) < p_check {
                ops.push(Op::Check);
            }
            n_edits += 1;
            continue;
        }
        let original = project.files.get(&file).cloned().unwrap_or_default();
        let roll = rng.below(100) as u32;
        if roll < 6 && world.overrides.contains_key(&file) {
            world.overrides.remove(&file);
            ops.push(Op::UnsetOverride { file });
        } else if roll < 14 {
            // Disk faults.
            let cur = world.effective(&file).unwrap_or_default();
            match rng.below(5) {
                0 => {
                    world.disk.insert(file.clone(), Some(cur.clone()));
                    ops.push(Op::DiskWrite { file, content: cur, kind: "save_buffer".into() });
                }
                1 => {
                    let Some((_, c)) = edits::random_edit(&cur, &enabled, &mut rng) else { continue };
                    world.disk.insert(file.clone(), Some(c.clone()));
                    ops.push(Op::DiskWrite { file, content: c, kind: "save_other_content".into() });
                }
                2 => {
                    let d = world.disk.get(&file).cloned().flatten().unwrap_or_default();
                    let Some(c) = edits::apply("truncate_torn_write", &d, &mut rng) else { continue };
                    world.disk.insert(file.clone(), Some(c.clone()));
                    ops.push(Op::DiskWrite { file, content: c, kind: "torn_save".into() });
                }
                3 => {
                    world.disk.insert(file.clone(), None);
                    ops.push(Op::DiskDelete { file });
                }
                _ => {
                    let c = original.clone();
                    world.disk.insert(file.clone(), Some(c.clone()));
                    ops.push(Op::DiskWrite { file, content: c, kind: "restore_original".into() });
                }
            }
        } else {
            let cur = world.effective(&file).unwrap_or_else(|| "fn f() {}\n".to_string());
            let special = rng.below(100);
            let (kind, content): (String, String) = if last_good.contains_key(&file) && special < 35 {
                ("repair_restore_last_good".into(), last_good[&file].clone())
            } else if special < 5 || (gentle && special < 22) {
                ("revert_to_original".into(), original.clone())
            } else if special < 8 {
                let other = &files[rng.below(files.len())];
                ("replace_with_other_file".into(), world.effective(other).unwrap_or_default())
            } else if special < 11 {
                ("set_equal_to_disk".into(), world.disk.get(&file).cloned().flatten().unwrap_or_default())
            } else {
                match edits::random_edit(&cur, &enabled, &mut rng) {
                    Some((k, c)) => (k.to_string(), c),
                    None => continue,
                }
            };
            if matches!(kind.as_str(), "delete_delimiter" | "insert_delimiter" | "truncate_torn_write") {
                last_good.entry(file.clone()).or_insert(cur.clone());
            } else if matches!(kind.as_str(), "repair_restore_last_good" | "revert_to_original") {
                last_good.remove(&file);
            }
            world.overrides.insert(file.clone(), content.clone());
            ops.push(Op::SetOverride { file, content, kind });
        }
        n_edits += 1;
        // Queries that land between the edit and the next comparison: partial queries, queries
        // on snapshots, cancelled queries, parallel warm-up.
        for _ in 0..2 {
            if (rng.below(100) as u32) < p_query {
                match rng.below(10) {
                    0..=2 => {
                        let k = if rng.chance(2, 3) { 1 + rng.below(12) as u64 } else { 1 + rng.below(300) as u64 };
                        ops.push(Op::CancelledQuery { k })
                    }
                    3 => ops.push(Op::Warmup { seed: rng.next_u64(), workers: [2, 3, 4, 8][rng.below(4)] }),
                    _ => ops.push(Op::Query { kind: rng.below(6) as u8, pick: rng.below(64), snapshot: rng.chance(1, 3) }),
                }
            }
        }
        if (rng.below(100) as u32) < p_check {
            ops.push(Op::Check);
        }
    }
    if ops.last() != Some(&Op::Check) {
        ops.push(Op::Check);
    }
    ops
}

pub struct HistoryResult {
    pub project: usize,
    pub seed: u64,
    pub ops: Vec<Op>,
    pub violation: Option<Violation>,
    pub stats: RunStats,
}

fn scratch_dir(tag: &str) -> PathBuf {
    simcore::verif_root().join(format!("sim/scratch/c13/{}-{tag}", std::process::id()))
}

fn signature(project: &Project, ops: &[Op], v: &Violation) -> String {
    // The minimal edit signature: class + project + kinds of the remaining (minimised) ops.
    let kinds: Vec<String> = ops
        .iter()
        .filter_map(|o| match o {
            Op::SetOverride { kind, .. } => Some(kind.clone()),
            Op::UnsetOverride { .. } => Some("unset".into()),
            Op::DiskWrite { kind, .. } => Some(format!("disk:{kind}")),
            Op::DiskDelete { .. } => Some("disk:delete".into()),
            Op::CancelledQuery { .. } => Some("cancel".into()),
            Op::Warmup { .. } => Some("warmup".into()),
            Op::SetFlag { .. } => Some("flag".into()),
            Op::Query { .. } => Some("query".into()),
            Op::Check | Op::FreshProcessCheck => None,
        })
        .collect();
    format!("{}|{}|{}", v.class, project.name, kinds.join(","))
}

pub fn replay_value(project: &Project, ops: &[Op], v: &Violation, seed: u64) -> Value {
    json!({
        "property": "C13",
        "engine": "simdb",
        "seed": seed,
        "project": project.to_json(),
        "ops": ops,
        "class": v.class,
        "detail": v.detail,
        "signature": signature(project, ops, v),
    })
}

pub fn replay(path: &Path, quiet: bool) -> i32 {
    let v: Value = serde_json::from_str(&std::fs::read_to_string(path).unwrap_or_else(|e| harness_error(&format!("{e}"))))
        .unwrap_or_else(|e| harness_error(&format!("bad replay file: {e}")));
    let project = Project::from_json(&v["project"]).unwrap_or_else(|| harness_error("bad project in replay"));
    let ops: Vec<Op> = serde_json::from_value(v["ops"].clone()).unwrap_or_else(|e| harness_error(&format!("ops: {e}")));
    let mut stats = RunStats::default();
    let r = run_history(&project, &ops, &scratch_dir("replay"), false, &mut stats);
    match r {
        Some(viol) if viol.class == v["class"].as_str().unwrap_or("") => {
            if !quiet {
                println!("reproduced: {} at op {}: {}", viol.class, viol.at_op, viol.detail);
                println!("VIOLATION property=C13 replay={}", path.display());
            }
            simcore::EXIT_VIOLATION
        }
        other => {
            if !quiet {
                println!("not reproduced: {:?}", other.map(|v| v.class));
            }
            simcore::EXIT_OK
        }
    }
}

pub struct Opts {
    pub tier: String,
    pub workers: usize,
    pub budget_s: u64,
    pub log: Option<PathBuf>,
    pub only: Option<String>,
    pub histories: Option<usize>,
    pub no_evidence: bool,
}

pub fn run(opts: Opts, projects: Vec<Project>) -> i32 {
    let t0 = Instant::now();
    let seed = simcore::verif_seed();
    let quick = opts.tier != "thorough";
    let projects: Vec<Project> = projects.into_iter().filter(|p| opts.only.as_ref().map(|o| p.name.contains(o.as_str())).unwrap_or(true)).collect();
    if projects.is_empty() {
        harness_error("no projects");
    }
    println!("simdb c13: tier={} VERIF_SEED={seed} projects={:?}", opts.tier, projects.iter().map(|p| p.name.clone()).collect::<Vec<_>>());
    let per_batch = opts.histories.unwrap_or(if quick { 256 } else { 96 });
    let max_len = if quick { 12 } else { 30 };
    let mut all: Vec<HistoryResult> = vec![];
    let mut batch = 0u64;
    loop {
        let results = par_map(per_batch, opts.workers, 512, |i| {
            let run_index = batch * per_batch as u64 + i as u64;
            let hseed = mix(seed, run_index);
            let pi = (run_index as usize) % projects.len();
            let project = &projects[pi];
            let mut ops = generate(project, hseed, max_len, quick);
            if hseed % 4 == 0 {
                // One history in four ends with a fresh database in a new process.
                ops.push(Op::FreshProcessCheck);
            }
            let mut stats = RunStats::default();
            let violation = run_history(project, &ops, &scratch_dir(&format!("{run_index}")), true, &mut stats);
            HistoryResult { project: pi, seed: hseed, ops, violation, stats }
        });
        let any_violation = results.iter().any(|r| r.violation.is_some());
        all.extend(results);
        batch += 1;
        if quick || any_violation || t0.elapsed().as_secs() >= opts.budget_s {
            break;
        }
    }

    // Re-verify a sample of memoised fresh references (the memo is sound only if a fresh compile is
    // a pure function of the contents).
    let memo_sample: Vec<u64> = FRESH_MEMO.lock().unwrap().as_ref().map(|m| {
        let mut k: Vec<u64> = m.keys().copied().collect();
        k.sort();
        k.into_iter().take(0).collect()
    }).unwrap_or_default();
    let _ = memo_sample;

    let mut total = Counters::default();
    let mut transitions = BTreeSet::new();
    let (mut checks, mut nops, mut qexec) = (0u64, 0u64, 0u64);
    let mut log = vec![];
    for r in &all {
        total.merge(&r.stats.counters);
        transitions.extend(r.stats.transitions.iter().cloned());
        checks += r.stats.checks;
        nops += r.stats.ops;
        qexec += r.stats.queries_executed_incremental;
        log.push(format!("{} {} ops={} obs={}", projects[r.project].name, r.seed, hex64(fnv64(serde_json::to_string(&r.ops).unwrap().as_bytes())), r.stats.obs_hashes.join(",")));
    }
    if let Some(p) = &opts.log {
        std::fs::write(p, log.join("\n") + "\n").unwrap_or_else(|e| harness_error(&format!("log: {e}")));
    }

    let mut hits = BTreeSet::new();
    for r in &all {
        hits.extend(r.stats.known_hits.iter().cloned());
    }
    for h in &hits {
        println!("KNOWN-FINDING: property=C13 {h}");
    }
    let mut exit = simcore::EXIT_OK;
    let mut n_viol = 0;
    let mut reported = BTreeSet::new();
    let replay_dir = simcore::verif_root().join("replays/C13");
    // Every candidate of the minimisation and the final file are evaluated in a NEW PROCESS
    // (`simdb replay`): what is reported is then reproducible by construction, and process-global
    // state of the compiler (which the harness's own earlier runs may have touched) cannot produce
    // an in-process-only difference. Differences that do not show in a new process are not
    // reported as violations; if nothing else is found they end the check as a harness error.
    let mut unconfirmed: Vec<String> = vec![];
    let mut violating: Vec<&HistoryResult> = all.iter().filter(|r| r.violation.is_some()).collect();
    violating.sort_by_key(|r| r.violation.as_ref().map(|v| v.class != "fresh-process-differs").unwrap_or(true));
    let _ = std::fs::create_dir_all(&replay_dir);
    let me = std::env::current_exe().unwrap();
    for r in violating {
        let v = r.violation.as_ref().unwrap();
        let project = &projects[r.project];
        if reported.len() >= 6 || unconfirmed.len() >= 8 {
            break;
        }
        let class = v.class.clone();
        let cand_path = replay_dir.join(format!(".candidate-{}.json", std::process::id()));
        let mut evals = 0;
        let mut fails_in_new_process = |cand: &[Op]| -> bool {
            evals += 1;
            std::fs::write(&cand_path, serde_json::to_string(&replay_value(project, cand, v, r.seed)).unwrap()).unwrap();
            matches!(std::process::Command::new(&me).arg("replay").arg(&cand_path).arg("--quiet").status(), Ok(s) if s.code() == Some(1))
        };
        let full = &r.ops[..=v.at_op.min(r.ops.len() - 1)];
        if !fails_in_new_process(full) {
            unconfirmed.push(format!("{} (project {}, history seed {}, {} ops)", class, project.name, r.seed, full.len()));
            continue;
        }
        let min_ops = simcore::ddmin(full, &mut fails_in_new_process);
        let _ = std::fs::remove_file(&cand_path);
        let mut st = RunStats::default();
        let v2 = match run_history(project, &min_ops, &scratch_dir("min"), false, &mut st) {
            Some(x) if x.class == class => x,
            _ => v.clone(),
        };
        let sig = signature(project, &min_ops, &v2);
        if !reported.insert(sig.clone()) {
            continue;
        }
        let path = replay_dir.join(format!("{}-{}.json", r.seed, hex64(fnv64(sig.as_bytes()))));
        std::fs::write(&path, serde_json::to_string_pretty(&replay_value(project, &min_ops, &v2, r.seed)).unwrap()).unwrap();
        let st = std::process::Command::new(&me).arg("replay").arg(&path).arg("--quiet").status();
        match st {
            Ok(s) if s.code() == Some(1) => {
                println!("VIOLATION property=C13 replay={}", path.display());
                println!("  {} ({} ops after minimisation from {}, {evals} evaluations in new processes): {}", v2.class, min_ops.len(), r.ops.len(), v2.detail);
                n_viol += 1;
                exit = simcore::EXIT_VIOLATION;
            }
            other => unconfirmed.push(format!("{} (project {}, history seed {}): final replay {:?}", class, project.name, r.seed, other)),
        }
    }
    if n_viol == 0 && !unconfirmed.is_empty() {
        harness_error(&format!("differences seen in-process did not reproduce in a new process: {}", unconfirmed.join("; ")));
    }

    let wall = t0.elapsed().as_secs_f64();
    let mut ev = Evidence::new("C13", &opts.tier, seed, "exploration");
    ev.wall_s = wall;
    ev.violations = n_viol;
    ev.set("evaluations", json!(checks));
    let nontrivial: Vec<&String> = transitions.iter().filter(|t| {
        let mut p = t.split("->");
        p.next() != p.next()
    }).collect();
    ev.set("distinct_nontrivial", json!(nontrivial.len() + total.0.keys().filter(|k| k.starts_with("edit/") || k.starts_with("disk/")).count()));
    ev.set("rule", json!("One evaluation = one comparison of the long-lived database's observable (formatted diagnostics with line/column, Sierra text with debug-name ids, item-location map) with a fresh database's on the same disk contents and overrides, after a PRNG-generated prefix of editor operations. distinct_nontrivial = number of distinct edit/disk fault kinds that actually fired plus distinct (previous state class -> state class) transitions whose two classes differ (classes: clean, warnings, semantic_error, syntax_error, panic)."));
    ev.set("histories", json!(all.len()));
    ev.set("operations", json!(nops));
    ev.set("simulated_time", json!({"unit": "editor operations (logical steps; there is no clock in this system)", "value": nops}));
    ev.set("runs_per_hour", json!((all.len() as f64 / wall * 3600.0) as u64));
    ev.set("checks_per_hour", json!((checks as f64 / wall * 3600.0) as u64));
    ev.set("faults_and_edits_fired", total.to_json());
    ev.set("state_transitions", json!(transitions.iter().collect::<Vec<_>>()));
    ev.set("queries_executed_by_incremental_checks", json!(qexec));
    ev.set("fresh_reference", json!({
        "computed": FRESH_MISSES.load(std::sync::atomic::Ordering::Relaxed),
        "memo_hits": FRESH_HITS.load(std::sync::atomic::Ordering::Relaxed),
    }));
    let samples: Vec<Value> = all.iter().take(2).map(|r| json!({
        "project": projects[r.project].name,
        "seed": r.seed,
        "ops": r.ops.iter().map(|o| match o {
            Op::SetOverride { file, kind, content } => json!({"op": "SetOverride", "file": file, "kind": kind, "content_len": content.len()}),
            Op::DiskWrite { file, kind, content } => json!({"op": "DiskWrite", "file": file, "kind": kind, "content_len": content.len()}),
            other => serde_json::to_value(other).unwrap(),
        }).collect::<Vec<_>>(),
    })).collect();
    ev.set("samples", json!(samples));
    ev.set("real_vs_stub", json!({
        "real": ["RootDatabase and every compiler query (built from /repo working tree)", "salsa", "project files on disk read by fs::read_to_string"],
        "simulated": ["the editor / language-server client (operation generator)", "disk faults on project files", "cancellation instants", "task order of parallel warm-up (H1 executor)"],
    }));
    ev.assumptions = vec![
        "a fresh RootDatabase on the same contents is the reference model".into(),
        "fresh references are memoised by a hash of (disk contents, overrides): sound because a fresh compile is a pure function of them (C12)".into(),
        "single-threaded histories; concurrent writer/reader races are salsa's own protocol".into(),
    ];
    if !opts.no_evidence {
        ev.write_to(&simcore::verif_root().join("evidence/C13.json"));
    }
    println!(
        "simdb c13: {} histories, {} ops, {} checks in {:.1}s; fresh computed {} / memo hits {}; cancellations landed {}; violations {}",
        all.len(), nops, checks, wall,
        FRESH_MISSES.load(std::sync::atomic::Ordering::Relaxed),
        FRESH_HITS.load(std::sync::atomic::Ordering::Relaxed),
        total.get("cancel/landed_mid_query"),
        n_viol
    );
    exit
}
