mod ty;
mod t;
mod a;
mod b;
mod c;
mod user;
