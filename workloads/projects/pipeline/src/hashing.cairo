use core::hash::HashStateTrait;
use core::pedersen::PedersenTrait;
use core::poseidon::PoseidonTrait;

#[inline(always)]
pub fn small(x: felt252) -> felt252 {
    x + 1
}

#[inline(never)]
pub fn never_inlined(x: felt252) -> felt252 {
    x * 3 + small(x)
}

pub fn mix(a: felt252, b: felt252) -> felt252 {
    let p = PedersenTrait::new(a).update(b).finalize();
    let q = PoseidonTrait::new().update(a).update(never_inlined(b)).finalize();
    p + q
}

pub fn bits(a: u128, b: u128) -> u128 {
    (a & b) | (a ^ 0xff)
}
