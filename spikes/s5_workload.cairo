fn add_u8(a: u8, b: u8) -> u8 { a + b }
fn sub_u64(a: u64, b: u64) -> u64 { a - b }
fn div_u128(a: u128, b: u128) -> u128 { a / b }
fn mul_u256(a: u256, b: u256) -> u256 { a * b }
fn div_u256(a: u256, b: u256) -> u256 { a / b }
fn sqrt_u64(a: u64) -> u32 { core::num::traits::Sqrt::sqrt(a) }
fn cast_u128_u8(a: u128) -> u8 { a.try_into().unwrap() }
fn lt_u32(a: u32, b: u32) -> bool { a < b }
fn dict_sum(a: felt252, b: felt252) -> felt252 {
    let mut d: Felt252Dict<felt252> = Default::default();
    d.insert(a, 10);
    d.insert(b, 20);
    d.insert(a, d.get(a) + 5);
    d.get(a) + d.get(b)
}
fn arr_sum(n: u32) -> u32 {
    let mut arr = array![];
    let mut i = 0_u32;
    while i != n { arr.append(i); i += 1; };
    let mut s = 0_u32;
    for x in arr { s += x; };
    s
}
