use core::dict::Felt252Dict;

pub fn sum_squares(mut items: Span<u32>) -> u32 {
    let mut total = 0;
    while let Some(x) = items.pop_front() {
        total += *x * *x;
    }
    total
}

pub fn histogram(mut items: Span<felt252>) -> felt252 {
    let mut d: Felt252Dict<u32> = Default::default();
    for x in items {
        let cur = d.get(*x);
        d.insert(*x, cur + 1);
    }
    d.get(1).into() * 10 + d.get(2).into()
}

#[derive(Drop)]
pub struct Guard {
    pub id: u32,
}

pub struct Resource {
    pub handle: u64,
}

impl ResourceDestruct of Destruct<Resource> {
    fn destruct(self: Resource) nopanic {
        let Resource { handle: _ } = self;
    }
}

pub fn use_resource(x: u64) -> u64 {
    let r = Resource { handle: x };
    let _g = Guard { id: 1 };
    if x == 0 {
        panic!("zero handle");
    }
    r.handle + 1
}
