trait Tr<T> {
    type Ty;
}
impl W<T, +Drop<T>> of Tr<T> {
    type Ty = T;
}
enum E {
    A: Tr::<felt252>::Ty,
}
E::A!(());
