#[starknet::component]
pub mod counter_part {
    use starknet::storage::{StoragePointerReadAccess, StoragePointerWriteAccess};
    use crate::api::ICounter;
    use crate::kinds::Tag;

    #[storage]
    pub struct Storage {
        pub seen: u64,
        pub last: Tag,
        pub nonce: u64,
    }

    #[event]
    #[derive(Drop, starknet::Event)]
    pub enum Event {
        Bumped: Bumped,
    }

    #[derive(Drop, starknet::Event)]
    pub struct Bumped {
        #[key]
        pub tag: Tag,
        pub seen: u64,
    }

    #[embeddable_as(CounterImpl)]
    pub impl Counter<TContractState, +HasComponent<TContractState>> of ICounter<ComponentState<TContractState>> {
        fn bump(ref self: ComponentState<TContractState>, tag: Tag) -> u64 {
            let seen = self.seen.read() + 1;
            self.seen.write(seen);
            self.last.write(tag);
            self.emit(Bumped { tag, seen });
            seen
        }
        fn seen(self: @ComponentState<TContractState>) -> u64 {
            self.seen.read()
        }
    }
}
