#!/usr/bin/env bash
# confirm_seeded.sh <worktree> <seeded-name> <test-crate>
# In the scratch worktree: (1) demo with the patch must FAIL, (2) demo without the patch must PASS,
# (3) full suite with the patch must match the baseline (only the always-failing test fails).
# Writes <worktree>/_seeded/<name>/confirm.log and confirm.json.
set -u
WT="$1"; NAME="$2"; CRATE="${3:-cairo-lang-compiler}"
D="$WT/_seeded/$NAME"; LOG="$D/confirm.log"; : > "$LOG"
cd "$WT" || exit 2
git checkout -q -- . 2>>"$LOG"
T="seeded_demo_$(echo "$NAME" | tr -c 'a-zA-Z0-9' '_')"
mkdir -p "crates/$CRATE/tests"
cp "$D/demo.rs" "crates/$CRATE/tests/$T.rs"
git apply "$D/patch.diff" >>"$LOG" 2>&1 || { echo "patch does not apply" >>"$LOG"; echo '{"applies":false}' > "$D/confirm.json"; exit 1; }
echo "== demo WITH patch" >>"$LOG"
cargo test --offline -j 6 -p "$CRATE" --test "$T" >>"$LOG" 2>&1; with=$?
echo "== full suite WITH patch" >>"$LOG"
cargo nextest run --workspace --no-fail-fast --offline --test-threads 6 --build-jobs 6 > "$D/suite.log" 2>&1
grep -E "^\s+(FAIL|Summary)" "$D/suite.log" | sort -u >>"$LOG"
fails=$(grep -E "^\s+FAIL " "$D/suite.log" | grep -v "$T" | sed 's/.*) //' | sort -u | tr '\n' ';')
git checkout -q -- . 2>>"$LOG"
echo "== demo WITHOUT patch" >>"$LOG"
cargo test --offline -j 6 -p "$CRATE" --test "$T" >>"$LOG" 2>&1; without=$?
rm -f "crates/$CRATE/tests/$T.rs"; rmdir "crates/$CRATE/tests" 2>/dev/null
printf '{"applies":true,"demo_exit_with_patch":%d,"demo_exit_without_patch":%d,"suite_failures_with_patch":"%s"}\n' "$with" "$without" "$fails" > "$D/confirm.json"
cat "$D/confirm.json"
