#[executable]
fn main(x: felt252) -> felt252 {
    super::shared(x) + super::beta::main(x)
}

#[executable]
fn extra(a: u32, b: u32) -> u32 {
    a * b
}
