pub struct MyType {
    pub v: felt252,
}
