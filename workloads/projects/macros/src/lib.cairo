// Inline macros whose arguments contain errors: the diagnostics are located inside generated code
// and travel back to this file through code mappings.
fn build(x: u8) -> Array<felt252> {
    let items = array![missing_first,  1, 2];
    let more = array![1,  missing_second,  3];
    items
}

fn show(x: u8,  y: u16) {
    println!("{} {}",  x, missing_print);
    print!("{}",  missing_again);
}

fn check(x: u8) {
    assert!(x ==  missing_lhs, "value {}", x);
    assert_eq!(x,  missing_rhs);
    assert!(x < 3,  "third {}", missing_msg_arg);
}

fn text(x: u8) -> ByteArray {
    let a = format!("{} {}", x,  missing_format);
    let b: ByteArray = "plain";
    a
}

fn ok_macros(x: u8) -> Array<u8> {
    let v = array![x,  x + 1, 2];
    assert!(x < 200,  "fine {}", x);
    v
}
