// Array and span libfuncs with hints: array_new, array_get, array_slice, pop_front(_consume),
// snapshot_pop_front/back, multi_pop, Box.
fn build(n: u8) -> Array<felt252> {
    let mut a = array![];
    let mut i: u8 = 0;
    while i != n % 12 { a.append(i.into() * 3 + 1); i += 1; }
    a
}
fn get_at(n: u8, idx: u32) -> felt252 {
    let a = build(n);
    match a.get(idx) { Some(x) => *x.unbox(), None => 999 }
}
fn index_at(n: u8, idx: u32) -> felt252 {
    let a = build(n);
    *a.at(idx)
}
fn arg_get(a: Array<felt252>, idx: u32) -> felt252 {
    match a.get(idx) { Some(x) => *x.unbox(), None => 999 }
}
fn arg_len(a: Array<u128>) -> u32 { a.len() }
fn pop_front_sum(a: Array<u64>) -> u64 {
    let mut a = a;
    let mut s: u64 = 0;
    loop {
        match a.pop_front() { Some(x) => { s = s / 2 + x / 2; }, None => { break; } }
    }
    s
}
fn span_pop_back_sum(a: Array<u32>) -> felt252 {
    let mut sp = a.span();
    let mut s: felt252 = 0;
    loop {
        match sp.pop_back() { Some(x) => { s = s * 7 + (*x).into(); }, None => { break; } }
    }
    s
}
fn span_pop_front_sum(a: Array<felt252>) -> felt252 {
    let mut sp = a.span();
    let mut s: felt252 = 0;
    loop {
        match sp.pop_front() { Some(x) => { s = s * 5 + *x; }, None => { break; } }
    }
    s
}
fn slice_sum(n: u8, start: u32, len: u32) -> felt252 {
    let a = build(n);
    let sp = a.span();
    if start > 20 || len > 20 { return 1234; }
    if start + len > sp.len() { return 4321; }
    let mut sl = sp.slice(start, len);
    let mut s: felt252 = 0;
    loop {
        match sl.pop_front() { Some(x) => { s = s * 11 + *x; }, None => { break; } }
    }
    s
}
fn slice_checked(a: Array<felt252>, start: u32, len: u32) -> felt252 {
    let sp = a.span();
    let sl = sp.slice(start, len);
    sl.len().into() * 1000 + (if sl.len() == 0 { 0 } else { *sl.at(0) })
}
fn multi_pop_front(a: Array<felt252>) -> felt252 {
    let mut sp = a.span();
    match sp.multi_pop_front::<3>() {
        Some(b) => { let [x, y, z] = (*b).unbox(); x + 2 * y + 3 * z + sp.len().into() * 100 },
        None => 55,
    }
}
fn multi_pop_back(a: Array<felt252>) -> felt252 {
    let mut sp = a.span();
    match sp.multi_pop_back::<2>() {
        Some(b) => { let [x, y] = (*b).unbox(); x + 2 * y + sp.len().into() * 100 },
        None => 56,
    }
}
fn boxed(a: u128, b: felt252) -> felt252 {
    let x = BoxTrait::new((a, b));
    let y = BoxTrait::new(a);
    let (p, q) = x.unbox();
    p.into() + q + y.unbox().into()
}
fn nullable_roundtrip(a: felt252, flag: bool) -> felt252 {
    let n: Nullable<felt252> = if flag { NullableTrait::new(a) } else { Default::default() };
    match core::nullable::match_nullable(n) {
        core::nullable::FromNullableResult::Null => 1000,
        core::nullable::FromNullableResult::NotNull(b) => b.unbox() + 1,
    }
}
fn for_range(a: u8, b: u8) -> felt252 {
    let mut s: felt252 = 0;
    for i in a..b { s = s * 3 + i.into(); };
    s
}
fn for_range_u128(a: u128, n: u8) -> felt252 {
    let mut s: felt252 = 0;
    if a > 0xffffffffffffffffffffffffffffff00 { return 9; }
    for i in a..(a + (n % 5).into()) { s = s * 3 + i.into(); };
    s
}
fn ret_array(n: u8) -> Array<felt252> { build(n) }
fn ret_span_tail(a: Array<u64>, skip: u32) -> Span<u64> {
    let sp = a.span();
    if skip > sp.len() { return sp; }
    sp.slice(skip, sp.len() - skip)
}
fn ret_option_array(n: u8) -> Option<Array<u32>> {
    if n % 2 == 0 { return None; }
    let mut a = array![];
    let mut i: u32 = 0;
    while i != (n % 5).into() { a.append(i * i); i += 1; }
    Some(a)
}
fn ret_boxed(a: u128, b: u8) -> Box<(u128, u8)> { BoxTrait::new((a, b)) }
fn ret_array_of_pairs(n: u8) -> Array<(u8, felt252)> {
    let mut a = array![];
    let mut i: u8 = 0;
    while i != n % 4 { a.append((i, i.into() * 100)); i += 1; }
    a
}

// ---- element types wider than two cells (the CASM of array_get / array_slice / multi_pop is
// generic over the element size), spans taken before later appends (data lies right behind the
// span's end), and pops of 3, 4, 6 cells.
#[derive(Copy, Drop)]
struct Wide3 {
    a: felt252,
    b: felt252,
    c: felt252,
}
#[derive(Copy, Drop)]
struct Wide5 {
    a: u128,
    b: u256,
    c: felt252,
    d: u8,
}
fn wide3_get_behind_span(n: u8, idx: u32) -> felt252 {
    let mut arr: Array<Wide3> = array![];
    let mut i: u8 = 0;
    while i != n % 4 { arr.append(Wide3 { a: i.into(), b: 100 + i.into(), c: 200 + i.into() }); i += 1; }
    let sp = arr.span();
    arr.append(Wide3 { a: 7001, b: 7002, c: 7003 });
    arr.append(Wide3 { a: 8001, b: 8002, c: 8003 });
    let res = match sp.get(idx) {
        Some(x) => { let w = *x.unbox(); w.a + w.b * 3 + w.c * 5 },
        None => 999,
    };
    res * 2 + (*arr.at(arr.len() - 1)).b
}
fn wide3_arg_get(a: Array<Wide3>, idx: u32) -> felt252 {
    match a.get(idx) { Some(x) => { let w = *x.unbox(); w.a + w.b * 3 + w.c * 5 }, None => 999 }
}
fn wide5_get_behind_span(n: u8, idx: u32) -> felt252 {
    let mut arr: Array<Wide5> = array![];
    let mut i: u8 = 0;
    while i != n % 3 { arr.append(Wide5 { a: i.into(), b: 5_u256, c: 9, d: i }); i += 1; }
    let sp = arr.span();
    arr.append(Wide5 { a: 77, b: 78_u256, c: 79, d: 80 });
    let res = match sp.get(idx) {
        Some(x) => { let w = *x.unbox(); w.a.into() + w.c * 3 + w.d.into() * 7 + w.b.low.into() },
        None => 999,
    };
    res * 2 + (*arr.at(arr.len() - 1)).c
}
fn wide3_slice_exact(n: u8, start: u32, len: u32) -> felt252 {
    let mut arr: Array<Wide3> = array![];
    let mut i: u8 = 0;
    while i != n % 5 { arr.append(Wide3 { a: i.into(), b: 100 + i.into(), c: 200 + i.into() }); i += 1; }
    let sp = arr.span();
    arr.append(Wide3 { a: 7001, b: 7002, c: 7003 });
    if start > 8 || len > 8 { return 1; }
    let sl = sp.slice(start, len);
    let mut s: felt252 = sl.len().into();
    let mut sl = sl;
    loop {
        match sl.pop_front() { Some(x) => { s = s * 13 + *x.a + *x.c; }, None => { break; } }
    }
    s * 2 + (*arr.at(arr.len() - 1)).a
}
fn wide3_arg_slice(a: Array<Wide3>, start: u32, len: u32) -> felt252 {
    let sp = a.span();
    let sl = sp.slice(start, len);
    sl.len().into() * 1000 + (if sl.len() == 0 { 0 } else { *sl.at(0).b })
}
fn multi_pop_front3_behind(n: u8) -> felt252 {
    let mut arr: Array<felt252> = array![];
    let mut i: u8 = 0;
    while i != n % 8 { arr.append(10 + i.into()); i += 1; }
    let mut sp = arr.span();
    arr.append(9001);
    arr.append(9002);
    arr.append(9003);
    let res = match sp.multi_pop_front::<3>() {
        Some(b) => { let [x, y, z] = (*b).unbox(); x + 2 * y + 3 * z + sp.len().into() * 100 },
        None => 55 + sp.len().into(),
    };
    res * 2 + *arr.at(arr.len() - 1)
}
fn multi_pop_back3_behind(n: u8) -> felt252 {
    let mut arr: Array<felt252> = array![];
    let mut i: u8 = 0;
    while i != n % 8 { arr.append(10 + i.into()); i += 1; }
    let mut sp = arr.span();
    arr.append(9001);
    let res = match sp.multi_pop_back::<3>() {
        Some(b) => { let [x, y, z] = (*b).unbox(); x + 2 * y + 3 * z + sp.len().into() * 100 },
        None => 56 + sp.len().into(),
    };
    res * 2 + *arr.at(arr.len() - 1)
}
fn multi_pop_front6(a: Array<felt252>) -> felt252 {
    let mut sp = a.span();
    match sp.multi_pop_front::<6>() {
        Some(b) => { let [x, y, z, u, v, w] = (*b).unbox(); x + 2 * y + 3 * z + 4 * u + 5 * v + 6 * w + sp.len().into() * 100 },
        None => 57,
    }
}
fn multi_pop_front_u256x3(a: Array<u256>) -> felt252 {
    let mut sp = a.span();
    match sp.multi_pop_front::<3>() {
        Some(b) => { let [x, y, z] = (*b).unbox(); x.low.into() + 2 * y.high.into() + 3 * z.low.into() + sp.len().into() * 100 },
        None => 58,
    }
}
fn multi_pop_back4(a: Array<u64>) -> felt252 {
    let mut sp = a.span();
    match sp.multi_pop_back::<4>() {
        Some(b) => { let [x, y, z, w] = (*b).unbox(); x.into() + 2 * y.into() + 3 * z.into() + 4 * w.into() + sp.len().into() * 100 },
        None => 59,
    }
}
// Index exactly at the end of the span (the boundary of array_get's range proof), with data behind it.
fn wide3_get_at_len(n: u8) -> felt252 {
    let mut arr: Array<Wide3> = array![];
    let mut i: u8 = 0;
    while i != n % 4 { arr.append(Wide3 { a: i.into(), b: 100 + i.into(), c: 200 + i.into() }); i += 1; }
    let sp = arr.span();
    arr.append(Wide3 { a: 7001, b: 7002, c: 7003 });
    let res = match sp.get((n % 4).into()) {
        Some(x) => { let w = *x.unbox(); w.a + w.b * 3 + w.c * 5 },
        None => 999,
    };
    let last = *arr.at(arr.len() - 1);
    res * 2 + last.c
}
fn felt_get_at_len(n: u8) -> felt252 {
    let mut arr: Array<felt252> = array![];
    let mut i: u8 = 0;
    while i != n % 4 { arr.append(i.into() + 40); i += 1; }
    let sp = arr.span();
    arr.append(7001);
    let res = match sp.get((n % 4).into()) { Some(x) => *x.unbox(), None => 999 };
    res * 2 + *arr.at(arr.len() - 1)
}
fn u256_get_at_len(n: u8) -> felt252 {
    let mut arr: Array<u256> = array![];
    let mut i: u8 = 0;
    while i != n % 4 { arr.append(i.into()); i += 1; }
    let sp = arr.span();
    arr.append(7001_u256);
    let res: felt252 = match sp.get((n % 4).into()) { Some(x) => (*x.unbox()).low.into(), None => 999 };
    res * 2 + (*arr.at(arr.len() - 1)).low.into()
}

// Pops wider than 16 cells (the CASM of multi_pop switches its range proof on the popped size), with
// readable data behind the span.
fn multi_pop_front17_behind(n: u8) -> felt252 {
    let mut arr: Array<felt252> = array![];
    let mut i: u8 = 0;
    while i != 12 + n % 8 { arr.append(10 + i.into()); i += 1; }
    let mut sp = arr.span();
    let mut j: u8 = 0;
    while j != 8 { arr.append(9000 + j.into()); j += 1; }
    let res = match sp.multi_pop_front::<17>() {
        Some(b) => { let a: [felt252; 17] = (*b).unbox(); let s = a.span(); *s.at(0) + 2 * *s.at(16) + sp.len().into() * 100 },
        None => 61 + sp.len().into(),
    };
    res * 2 + *arr.at(arr.len() - 1)
}
fn multi_pop_back17_behind(n: u8) -> felt252 {
    let mut arr: Array<felt252> = array![];
    let mut i: u8 = 0;
    while i != 12 + n % 8 { arr.append(10 + i.into()); i += 1; }
    let mut sp = arr.span();
    arr.append(9001);
    let res = match sp.multi_pop_back::<17>() {
        Some(b) => { let a: [felt252; 17] = (*b).unbox(); let s = a.span(); *s.at(0) + 2 * *s.at(16) + sp.len().into() * 100 },
        None => 62 + sp.len().into(),
    };
    res * 2 + *arr.at(arr.len() - 1)
}
fn multi_pop_front_u256x9_behind(n: u8) -> felt252 {
    let mut arr: Array<u256> = array![];
    let mut i: u8 = 0;
    while i != 6 + n % 5 { arr.append(u256 { low: 10 + i.into(), high: 3 }); i += 1; }
    let mut sp = arr.span();
    let mut j: u8 = 0;
    while j != 4 { arr.append(u256 { low: 9000 + j.into(), high: 4 }); j += 1; }
    let res: felt252 = match sp.multi_pop_front::<9>() {
        Some(b) => { let a: [u256; 9] = (*b).unbox(); let s = a.span(); (*s.at(0)).low.into() + 2 * (*s.at(8)).high.into() + sp.len().into() * 100 },
        None => 63 + sp.len().into(),
    };
    res * 2 + (*arr.at(arr.len() - 1)).low.into()
}
