#[starknet::contract]
pub mod ledger {
    use starknet::storage::{Map, StorageMapReadAccess, StorageMapWriteAccess};
    use crate::parts::counter::counter_part;
    use crate::parts::guard::guard_part;
    use crate::quota::Quota;
    use crate::tariff::Tariff;

    component!(path: counter_part, storage: counter, event: CounterEvent);
    component!(path: guard_part, storage: guard, event: GuardEvent);

    #[abi(embed_v0)]
    impl CounterImpl = counter_part::CounterImpl<ContractState>;
    #[abi(embed_v0)]
    impl GuardImpl = guard_part::GuardImpl<ContractState>;
    impl GuardInternal = guard_part::GuardInternal<ContractState>;

    #[storage]
    struct Storage {
        #[substorage(v0)]
        guard: guard_part::Storage,
        #[substorage(v0)]
        counter: counter_part::Storage,
        tariffs: Map<felt252, Tariff>,
        quotas: Map<felt252, Quota>,
    }

    #[event]
    #[derive(Drop, starknet::Event)]
    enum Event {
        CounterEvent: counter_part::Event,
        GuardEvent: guard_part::Event,
        Recorded: Recorded,
    }

    #[derive(Drop, starknet::Event)]
    struct Recorded {
        #[key]
        who: felt252,
        tariff: Tariff,
        quota: Quota,
    }

    #[constructor]
    fn constructor(ref self: ContractState, keeper: felt252) {
        self.guard.install(keeper);
    }

    #[abi(embed_v0)]
    impl LedgerImpl of crate::api::ILedger<ContractState> {
        fn record(ref self: ContractState, who: felt252, tariff: Tariff, quota: Quota) {
            self.tariffs.write(who, tariff);
            self.quotas.write(who, quota);
            self.emit(Recorded { who, tariff, quota });
        }
        fn tariff_of(self: @ContractState, who: felt252) -> Tariff {
            self.tariffs.read(who)
        }
        fn pair(self: @ContractState, who: felt252) -> (Tariff, Quota) {
            (self.tariffs.read(who), self.quotas.read(who))
        }
    }
}
