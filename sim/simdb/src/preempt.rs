//! Preemption seam for level 2: between two synchronisation points shuttle sees, code is atomic.
//! This global allocator turns every n-th allocation of a simulated task into a scheduling point
//! (`shuttle::thread::yield_now`), so that a task can also lose the processor in the middle of
//! ordinary code — e.g. while it holds a `std` lock taken with `try_lock`, or between a check and
//! an update of a shared atomic. The count is deterministic, so a run is still a function of its
//! seeds.
//!
//! Two dangers are handled: (1) the hook may be entered from shuttle's own runtime (its state is
//! then borrowed): `ExecutionState::try_with` tells, and the hook does nothing; (2) a task may be
//! preempted while it holds a *blocking* std lock that another task then waits for — all tasks
//! share one OS thread, so that is a real deadlock: a watchdog in the child notices that nothing
//! moves and ends the process with `EXIT_PREEMPT_DEADLOCK`, which the parent counts as inconclusive.

use std::alloc::{GlobalAlloc, Layout, System};
use std::cell::Cell;
use std::sync::atomic::{AtomicBool, AtomicU64, Ordering};

pub const EXIT_PREEMPT_DEADLOCK: i32 = 86;

pub struct PreemptAlloc;

static EVERY: AtomicU64 = AtomicU64::new(0);
static COUNT: AtomicU64 = AtomicU64::new(0);
static NEXT: AtomicU64 = AtomicU64::new(u64::MAX);
static LCG: AtomicU64 = AtomicU64::new(0);
pub static PREEMPTIONS: AtomicU64 = AtomicU64::new(0);
pub static PROGRESS: AtomicU64 = AtomicU64::new(0);
static ARMED: AtomicBool = AtomicBool::new(false);

thread_local! {
    static IN_HOOK: Cell<bool> = const { Cell::new(false) };
    /// Only task bodies of the simulated pool are preemptible.
    static IN_TASK: Cell<bool> = const { Cell::new(false) };
}

/// Arms the seam: about one preemption per `every` allocations (0 = off).
pub fn configure(every: u64, seed: u64) {
    EVERY.store(every, Ordering::SeqCst);
    LCG.store(seed | 1, Ordering::SeqCst);
    COUNT.store(0, Ordering::SeqCst);
    NEXT.store(0, Ordering::SeqCst);
    ARMED.store(every != 0, Ordering::SeqCst);
}

pub fn disarm() {
    ARMED.store(false, Ordering::SeqCst);
}

/// Guard that makes the current task non-preemptible until dropped.
pub struct NoPreempt(bool);
impl NoPreempt {
    pub fn new() -> Self {
        NoPreempt(IN_TASK.with(|c| c.replace(false)))
    }
}
impl Drop for NoPreempt {
    fn drop(&mut self) {
        IN_TASK.with(|c| c.set(self.0));
    }
}

pub fn enter_task() -> bool {
    IN_TASK.with(|c| c.replace(true))
}
pub fn leave_task(prev: bool) {
    IN_TASK.with(|c| c.set(prev));
}

/// Called at every query-execution event of a pool task (a deterministic point of the run): with a
/// probability derived from `every`, arms one preemption `k` allocations from here. Counting
/// allocations only from the last deterministic event keeps the schedule a function of the seeds
/// even though absolute allocation counts vary by a few between processes.
pub fn on_query_event() {
    if !ARMED.load(Ordering::Relaxed) || !IN_TASK.with(|c| c.get()) {
        return;
    }
    let every = EVERY.load(Ordering::Relaxed).max(1);
    let x = LCG.load(Ordering::Relaxed).wrapping_mul(6364136223846793005).wrapping_add(1442695040888963407);
    LCG.store(x, Ordering::Relaxed);
    let denom = (every / 200).max(1);
    if (x >> 33) % denom == 0 {
        NEXT.store(1 + (x >> 12) % 400, Ordering::Relaxed);
    } else {
        NEXT.store(0, Ordering::Relaxed);
    }
}

#[inline]
fn maybe_preempt() {
    if !ARMED.load(Ordering::Relaxed) {
        return;
    }
    if !IN_TASK.with(|c| c.get()) {
        return;
    }
    // NEXT = number of allocations left until the armed preemption (0 = none armed).
    let left = NEXT.load(Ordering::Relaxed);
    if left == 0 {
        return;
    }
    NEXT.store(left - 1, Ordering::Relaxed);
    if left != 1 {
        return;
    }
    if IN_HOOK.with(|c| c.replace(true)) {
        return;
    }
    COUNT.fetch_add(1, Ordering::Relaxed);
    // Only when shuttle's state can be borrowed (i.e. we are in user code, not inside its runtime)
    // and we are unwinding nothing.
    let free = shuttle_engine::runtime::execution::ExecutionState::try_with(|_| ()).is_ok();
    if free && !std::thread::panicking() {
        PREEMPTIONS.fetch_add(1, Ordering::Relaxed);
        PROGRESS.fetch_add(1, Ordering::Relaxed);
        shuttle::thread::yield_now();
    }
    IN_HOOK.with(|c| c.set(false));
}

unsafe impl GlobalAlloc for PreemptAlloc {
    unsafe fn alloc(&self, layout: Layout) -> *mut u8 {
        maybe_preempt();
        unsafe { System.alloc(layout) }
    }
    unsafe fn dealloc(&self, ptr: *mut u8, layout: Layout) {
        unsafe { System.dealloc(ptr, layout) }
    }
    unsafe fn alloc_zeroed(&self, layout: Layout) -> *mut u8 {
        maybe_preempt();
        unsafe { System.alloc_zeroed(layout) }
    }
    unsafe fn realloc(&self, ptr: *mut u8, layout: Layout, new_size: usize) -> *mut u8 {
        unsafe { System.realloc(ptr, layout, new_size) }
    }
}

/// Watchdog of a child run: if the progress counter (query executions, task starts, preemptions)
/// does not move for `secs` seconds while the seam is armed, the single OS thread is stuck on a
/// lock shuttle does not control.
pub fn start_deadlock_watchdog(secs: u64) {
    std::thread::spawn(move || {
        let mut last = PROGRESS.load(Ordering::Relaxed);
        let mut still = 0;
        loop {
            std::thread::sleep(std::time::Duration::from_secs(1));
            let now = PROGRESS.load(Ordering::Relaxed);
            if now == last && ARMED.load(Ordering::Relaxed) {
                still += 1;
                if still >= secs {
                    std::process::exit(EXIT_PREEMPT_DEADLOCK);
                }
            } else {
                still = 0;
                last = now;
            }
        }
    });
}
