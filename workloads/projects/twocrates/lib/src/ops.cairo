use super::Fraction;

pub fn add(a: Fraction, b: Fraction) -> Fraction {
    Fraction { num: a.num * b.den + b.num * a.den, den: a.den * b.den }
}

pub fn scale_by(a: Fraction, k: u64) -> Fraction {
    let unused_factor = k + 1;
    Fraction { num: a.num * k, den: a.den }
}

pub fn sum_all(mut items: Span<Fraction>) -> Fraction {
    let mut acc = Fraction { num: 0, den: 1 };
    while let Some(x) = items.pop_front() {
        acc = add(acc, *x);
    }
    acc
}
