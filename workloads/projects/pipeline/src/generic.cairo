pub trait Scale<T> {
    fn scale(self: T, by: u32) -> T;
}

pub trait Describe<T> {
    fn describe(self: T) -> felt252;
}

impl ScaleU32 of Scale<u32> {
    fn scale(self: u32, by: u32) -> u32 {
        self * by
    }
}

impl ScaleU64 of Scale<u64> {
    fn scale(self: u64, by: u32) -> u64 {
        self * by.into()
    }
}

impl DescribeInto<T, +Into<T, felt252>, +Drop<T>> of Describe<T> {
    fn describe(self: T) -> felt252 {
        self.into() + 1000
    }
}

pub fn largest<T, +PartialOrd<T>, +Copy<T>, +Drop<T>>(a: T, b: T, c: T) -> T {
    let ab = if a > b {
        a
    } else {
        b
    };
    if ab > c {
        ab
    } else {
        c
    }
}

pub fn largest_u8(a: u8, b: u8) -> u8 {
    largest(a, b, 7)
}

pub fn largest_felt_like(a: u128, b: u128) -> u128 {
    largest(a, 1, b)
}
