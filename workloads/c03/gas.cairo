// withdraw_gas / withdraw_gas_all / redeposit_gas in loops and recursion.
fn loop_sum(n: u8) -> felt252 {
    let mut i: u8 = 0;
    let mut s: felt252 = 0;
    while i != n {
        s += i.into();
        i += 1;
    }
    s
}
fn rec_fib(n: u8) -> felt252 {
    if n < 2 { return n.into(); }
    rec_fib(n - 1) + rec_fib(n - 2)
}
fn explicit_withdraw(n: u8) -> felt252 {
    match core::gas::withdraw_gas() {
        Some(_) => { if n == 0 { 1 } else { explicit_withdraw(n - 1) + 1 } },
        None => 77,
    }
}
fn explicit_withdraw_all(n: u8) -> felt252 {
    match core::gas::withdraw_gas_all(core::gas::get_builtin_costs()) {
        Some(_) => { if n == 0 { 1 } else { explicit_withdraw_all(n - 1) + core::pedersen::pedersen(n.into(), 3) } },
        None => 78,
    }
}
fn redeposit(n: u8) -> felt252 {
    if n > 100 {
        let mut i = 0_u8;
        let mut s = 0;
        while i != 5 { s += rec_fib(3); i += 1; }
        s
    } else {
        core::gas::redeposit_gas();
        5
    }
}
fn gas_nested(n: u8, m: u8) -> felt252 {
    let mut total = 0;
    let mut i = 0_u8;
    while i != n % 6 {
        let mut j = 0_u8;
        while j != m % 5 {
            total += 1;
            j += 1;
        }
        i += 1;
    }
    total
}
