// Several executables, some with the same name in different modules.
mod alpha;
mod beta;
mod gamma;

fn shared(x: felt252) -> felt252 {
    x * 2 + 1
}
