//! Verification-only seam for data parallelism (`--cfg cairo_verif`).
//!
//! Mirrors the small part of the `rayon` API used by the compiler crates and hands every parallel
//! task to an executor installed by a simulator. With no executor installed, tasks run inline, in
//! order.
use std::cell::RefCell;
use std::sync::Arc;

/// A boxed task borrowed for the duration of a `run_scoped` call.
pub type Task<'a> = Box<dyn FnOnce() + Send + 'a>;

/// Executes batches of tasks; must return only after every task of the batch finished.
pub trait Executor {
    fn run_scoped<'a>(&self, tasks: Vec<Task<'a>>);
    fn num_threads(&self) -> usize;
}

thread_local! {
    static EXECUTOR: RefCell<Option<Arc<dyn Executor>>> = const { RefCell::new(None) };
}

/// Installs (or removes) the executor of the current OS thread.
pub fn set_executor(executor: Option<Arc<dyn Executor>>) {
    EXECUTOR.with(|e| *e.borrow_mut() = executor);
}

fn executor() -> Option<Arc<dyn Executor>> {
    EXECUTOR.with(|e| e.borrow().clone())
}

fn run_scoped<'a>(tasks: Vec<Task<'a>>) {
    match executor() {
        Some(executor) => executor.run_scoped(tasks),
        None => tasks.into_iter().for_each(|task| task()),
    }
}

pub fn current_num_threads() -> usize {
    executor().map(|e| e.num_threads()).unwrap_or(1)
}

pub fn join<A, B, RA, RB>(oper_a: A, oper_b: B) -> (RA, RB)
where
    A: FnOnce() -> RA + Send,
    B: FnOnce() -> RB + Send,
    RA: Send,
    RB: Send,
{
    let mut res_a = None;
    let mut res_b = None;
    run_scoped(vec![
        Box::new(|| res_a = Some(oper_a())),
        Box::new(|| res_b = Some(oper_b())),
    ]);
    (res_a.unwrap(), res_b.unwrap())
}

pub mod iter {
    use super::{Task, run_scoped};

    pub struct ParIter<T>(Vec<T>);

    pub trait IntoParallelIterator {
        type Item: Send;
        fn into_par_iter(self) -> ParIter<Self::Item>;
    }
    impl<T: Send> IntoParallelIterator for Vec<T> {
        type Item = T;
        fn into_par_iter(self) -> ParIter<T> {
            ParIter(self)
        }
    }
    impl<'a, T: Sync> IntoParallelIterator for &'a [T] {
        type Item = &'a T;
        fn into_par_iter(self) -> ParIter<&'a T> {
            ParIter(self.iter().collect())
        }
    }
    impl<'a, T: Sync> IntoParallelIterator for &'a Vec<T> {
        type Item = &'a T;
        fn into_par_iter(self) -> ParIter<&'a T> {
            ParIter(self.iter().collect())
        }
    }

    pub trait IntoParallelRefIterator<'a> {
        type Item: Send + 'a;
        fn par_iter(&'a self) -> ParIter<Self::Item>;
    }
    impl<'a, T: Sync + 'a> IntoParallelRefIterator<'a> for [T] {
        type Item = &'a T;
        fn par_iter(&'a self) -> ParIter<&'a T> {
            ParIter(self.iter().collect())
        }
    }
    impl<'a, T: Sync + 'a> IntoParallelRefIterator<'a> for Vec<T> {
        type Item = &'a T;
        fn par_iter(&'a self) -> ParIter<&'a T> {
            ParIter(self.iter().collect())
        }
    }

    pub trait ParallelIterator: Sized {
        type Item: Send;
        fn into_items(self) -> Vec<Self::Item>;

        fn for_each_with<S, F>(self, init: S, op: F)
        where
            S: Send + Clone,
            F: Fn(&mut S, Self::Item) + Sync + Send,
        {
            let op = &op;
            let tasks: Vec<Task<'_>> = self
                .into_items()
                .into_iter()
                .map(|item| {
                    let mut state = init.clone();
                    Box::new(move || op(&mut state, item)) as Task<'_>
                })
                .collect();
            run_scoped(tasks);
        }

        fn map_with<S, F, R>(self, init: S, op: F) -> ParIter<R>
        where
            S: Send + Clone,
            F: Fn(&mut S, Self::Item) -> R + Sync + Send,
            R: Send,
        {
            let op = &op;
            let items = self.into_items();
            let mut results: Vec<Option<R>> = items.iter().map(|_| None).collect();
            let tasks: Vec<Task<'_>> = items
                .into_iter()
                .zip(results.iter_mut())
                .map(|(item, slot)| {
                    let mut state = init.clone();
                    Box::new(move || *slot = Some(op(&mut state, item))) as Task<'_>
                })
                .collect();
            run_scoped(tasks);
            ParIter(results.into_iter().map(|r| r.unwrap()).collect())
        }

        fn flatten(self) -> ParIter<<Self::Item as IntoIterator>::Item>
        where
            Self::Item: IntoIterator,
            <Self::Item as IntoIterator>::Item: Send,
        {
            ParIter(self.into_items().into_iter().flatten().collect())
        }

        fn collect<C: FromIterator<Self::Item>>(self) -> C {
            self.into_items().into_iter().collect()
        }
    }
    impl<T: Send> ParallelIterator for ParIter<T> {
        type Item = T;
        fn into_items(self) -> Vec<T> {
            self.0
        }
    }
}
