use std::path::PathBuf;
use std::sync::Arc;
use std::time::Instant;

use cairo_lang_compiler::db::RootDatabase;
use cairo_lang_compiler::diagnostics::DiagnosticsReporter;
use cairo_lang_compiler::project::setup_project;
use cairo_lang_compiler::{CompilerConfig, compile_prepared_db_program_artifact};
use cairo_lang_filesystem::db::init_dev_corelib;
use cairo_lang_filesystem::ids::CrateInput;
use cairo_lang_utils::verif_par::{self, Executor, Task};

fn lcg(s: &mut u64) -> u64 { *s = s.wrapping_mul(6364136223846793005).wrapping_add(1442695040888963407); *s >> 33 }

/// Level 1: sequential, seeded permutation.
struct SeqExec { seed: std::sync::Mutex<u64>, n: usize, tasks_run: std::sync::atomic::AtomicUsize }
impl Executor for SeqExec {
    fn run_scoped<'a>(&self, mut tasks: Vec<Task<'a>>) {
        while !tasks.is_empty() {
            let i = { let mut s = self.seed.lock().unwrap(); (lcg(&mut s) as usize) % tasks.len() };
            let t = tasks.swap_remove(i);
            self.tasks_run.fetch_add(1, std::sync::atomic::Ordering::Relaxed);
            t();
        }
    }
    fn num_threads(&self) -> usize { self.n }
}

/// Level 2: one shuttle thread per task.
#[cfg(feature = "shuttle")]
struct ShuttleExec { n: usize, tasks_run: std::sync::atomic::AtomicUsize }
#[cfg(feature = "shuttle")]
impl Executor for ShuttleExec {
    fn run_scoped<'a>(&self, tasks: Vec<Task<'a>>) {
        self.tasks_run.fetch_add(tasks.len(), std::sync::atomic::Ordering::Relaxed);
        shuttle::thread::scope(|s| {
            for t in tasks {
                s.spawn(move || { shuttle::thread::sleep(std::time::Duration::from_millis(0)); t() });
            }
        });
    }
    fn num_threads(&self) -> usize { self.n }
}

fn compile(path: &str) -> (String, String) {
    let mut db = RootDatabase::builder().build().unwrap();
    init_dev_corelib(&mut db, PathBuf::from("/repo/corelib/src"));
    let main = setup_project(&mut db, &PathBuf::from(path)).unwrap();
    let mut diags = String::new();
    // raw ids
    let cfg = CompilerConfig { replace_ids: false, add_statements_functions: true, add_statements_code_locations: true, diagnostics_reporter: DiagnosticsReporter::write_to_string(&mut diags).with_crates(&main), ..Default::default() };
    let ids = CrateInput::into_crate_ids(&db, main.clone());
    let raw = compile_prepared_db_program_artifact(&db, ids, cfg).map(|a| a.program.to_string()).unwrap_or_else(|e| format!("ERR {e}"));
    let cfg = CompilerConfig { replace_ids: true, add_statements_functions: true, add_statements_code_locations: true, diagnostics_reporter: DiagnosticsReporter::write_to_string(&mut diags).with_crates(&main), ..Default::default() };
    let ids = CrateInput::into_crate_ids(&db, main.clone());
    let named = compile_prepared_db_program_artifact(&db, ids, cfg).map(|a| format!("{}\n{}", a.program, serde_json::to_string(&a.debug_info).unwrap())).unwrap_or_else(|e| format!("ERR {e}"));
    (raw, format!("{named}\n{diags}"))
}

fn h(s: &str) -> u64 { let mut x = 0xcbf29ce484222325u64; for b in s.bytes() { x ^= b as u64; x = x.wrapping_mul(0x100000001b3); } x }

fn main() {
    let path = std::env::args().nth(1).unwrap();
    let iters: usize = std::env::args().nth(2).unwrap().parse().unwrap();
    // reference: no executor → inline, num_threads = 1 → no warm-up.
    #[cfg(not(feature = "shuttle"))]
    {
        let (raw0, named0) = compile(&path);
        let mut raws = std::collections::BTreeSet::new();
        raws.insert(h(&raw0));
        let t = Instant::now();
        for seed in 1..=iters as u64 {
            let ex = Arc::new(SeqExec { seed: std::sync::Mutex::new(seed), n: 4, tasks_run: Default::default() });
            verif_par::set_executor(Some(ex.clone()));
            let (raw, named) = compile(&path);
            verif_par::set_executor(None);
            raws.insert(h(&raw));
            if named != named0 { println!("MISMATCH seed {seed}"); }
            if seed == 1 { println!("tasks run {}", ex.tasks_run.load(std::sync::atomic::Ordering::Relaxed)); }
        }
        println!("L1: {iters} runs in {:?}, distinct raw-id signatures {}", t.elapsed(), raws.len());
    }
    #[cfg(feature = "shuttle")]
    {
        use shuttle::scheduler::{RandomScheduler, PctScheduler};
        let mut cfg = shuttle::Config::new();
        cfg.stack_size = 512 << 20;
        cfg.max_steps = shuttle::MaxSteps::None;
        cfg.silence_warnings = true;
        let out = Arc::new(std::sync::Mutex::new(Vec::<(u64, String)>::new()));
        let out2 = out.clone();
        let p = path.clone();
        let t = Instant::now();
        let body = move || {
            let ex = Arc::new(ShuttleExec { n: 4, tasks_run: Default::default() });
            verif_par::set_executor(Some(ex.clone()));
            let (raw, named) = compile(&p);
            verif_par::set_executor(None);
            out2.lock().unwrap().push((h(&raw), named));
        };
        if std::env::args().nth(3).as_deref() == Some("pct") {
            shuttle::Runner::new(PctScheduler::new_from_seed(7, 3, iters), cfg).run(body);
        } else {
            shuttle::Runner::new(RandomScheduler::new_from_seed(7, iters), cfg).run(body);
        }
        let v = out.lock().unwrap();
        let raws: std::collections::BTreeSet<u64> = v.iter().map(|x| x.0).collect();
        println!("L2: {} runs in {:?}, all named equal {}, distinct raw-id signatures {}", v.len(), t.elapsed(), v.iter().all(|x| x.1 == v[0].1), raws.len());
    }
}
