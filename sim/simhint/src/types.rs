//! Input generation from Sierra parameter types, and the "no pointer in the result" filter.

use std::collections::HashMap;

use cairo_lang_runner::Arg;
use cairo_lang_sierra::ids::ConcreteTypeId;
use cairo_lang_sierra::program::{ConcreteTypeLongId, GenericArg, Program};
use num_bigint::{BigInt, BigUint};
use num_traits::{One, Signed, Zero};
use serde_json::{Value, json};
use simcore::Rng;
use starknet_types_core::felt::Felt as Felt252;

use crate::prover::{pow2, prime};

#[derive(Clone, Debug)]
pub enum Ty {
    Felt,
    /// Integer in `lo..=hi` (covers uN, iN, BoundedInt, bytes31).
    Range(BigInt, BigInt),
    NonZero(Box<Ty>),
    Struct(Vec<Ty>),
    /// Enum whose variants are all unit types, with this many variants (<= 2).
    UnitEnum(usize),
    Array(Box<Ty>),
    Unsupported(String),
}

/// Result decoder: how to turn the raw result felts (and the final memory) into a pointer-free text.
#[derive(Clone, Debug)]
pub enum RetTy {
    Scalar(usize),
    Struct(Vec<RetTy>),
    /// Variants (decoder, size) and the total size; at most two variants (selector 0 / 1).
    Enum(Vec<(RetTy, usize)>, usize),
    /// Element decoder and element size.
    Array(Box<RetTy>, usize),
    Boxed(Box<RetTy>, usize),
}

impl RetTy {
    pub fn has_pointer(&self) -> bool {
        match self {
            RetTy::Scalar(_) => false,
            RetTy::Struct(m) => m.iter().any(|x| x.has_pointer()),
            RetTy::Enum(v, _) => v.iter().any(|(x, _)| x.has_pointer()),
            RetTy::Array(..) | RetTy::Boxed(..) => true,
        }
    }
    /// Decodes `vals` (exactly the size of the type) into `out`. `mem` is the relocated memory.
    pub fn decode(&self, vals: &[Felt252], mem: &[Option<Felt252>], out: &mut String, depth: usize) -> Result<(), String> {
        if depth > 8 {
            return Err("nesting too deep".into());
        }
        let show = |f: &Felt252| f.to_biguint().to_string();
        let addr = |f: &Felt252| -> Result<usize, String> {
            use num_traits::ToPrimitive;
            f.to_biguint().to_usize().filter(|a| *a <= mem.len()).ok_or_else(|| format!("pointer {} outside memory", show(f)))
        };
        match self {
            RetTy::Scalar(n) => {
                if vals.len() != *n {
                    return Err("size mismatch".into());
                }
                out.push_str(&vals.iter().map(show).collect::<Vec<_>>().join(","));
                Ok(())
            }
            RetTy::Struct(m) => {
                out.push('(');
                let mut at = 0;
                for x in m {
                    let n = x.size();
                    if at + n > vals.len() {
                        return Err("size mismatch".into());
                    }
                    x.decode(&vals[at..at + n], mem, out, depth + 1)?;
                    out.push(';');
                    at += n;
                }
                out.push(')');
                Ok(())
            }
            RetTy::Enum(v, total) => {
                if vals.len() != *total {
                    return Err("size mismatch".into());
                }
                let sel = show(&vals[0]);
                let idx = match sel.as_str() {
                    "0" => 0,
                    "1" if v.len() == 2 => 1,
                    _ => return Err(format!("unexpected variant selector {sel}")),
                };
                let (x, n) = &v[idx];
                out.push_str(&format!("#{idx}<"));
                x.decode(&vals[vals.len() - n..], mem, out, depth + 1)?;
                out.push('>');
                Ok(())
            }
            RetTy::Array(elem, esize) => {
                // An empty array is empty wherever it points.
                if vals[0] == vals[1] {
                    out.push_str("[]");
                    return Ok(());
                }
                let (s, e) = (addr(&vals[0])?, addr(&vals[1])?);
                if e < s || (*esize > 0 && (e - s) % esize != 0) || e - s > 100_000 {
                    return Err(format!("bad array bounds {s}..{e}"));
                }
                out.push('[');
                if *esize > 0 {
                    for k in (s..e).step_by(*esize) {
                        let cells: Option<Vec<Felt252>> = mem[k..k + esize].iter().cloned().collect();
                        let cells = cells.ok_or_else(|| "array cell unset".to_string())?;
                        elem.decode(&cells, mem, out, depth + 1)?;
                        out.push(';');
                    }
                }
                out.push(']');
                Ok(())
            }
            RetTy::Boxed(inner, isize_) => {
                let a = addr(&vals[0])?;
                if a + isize_ > mem.len() {
                    return Err("box outside memory".into());
                }
                let cells: Option<Vec<Felt252>> = mem[a..a + isize_].iter().cloned().collect();
                out.push_str("box<");
                inner.decode(&cells.ok_or_else(|| "box cell unset".to_string())?, mem, out, depth + 1)?;
                out.push('>');
                Ok(())
            }
        }
    }
    pub fn size(&self) -> usize {
        match self {
            RetTy::Scalar(n) => *n,
            RetTy::Struct(m) => m.iter().map(|x| x.size()).sum(),
            RetTy::Enum(_, t) => *t,
            RetTy::Array(..) => 2,
            RetTy::Boxed(..) => 1,
        }
    }
}

/// A generated argument value (tree, because arrays nest).
#[derive(Clone, Debug, PartialEq, Eq)]
pub enum Val {
    F(BigUint),
    Arr(Vec<Val>),
}

impl Val {
    pub fn to_json(&self) -> Value {
        match self {
            Val::F(x) => json!(x.to_string()),
            Val::Arr(v) => Value::Array(v.iter().map(|x| x.to_json()).collect()),
        }
    }
    pub fn from_json(v: &Value) -> Option<Val> {
        match v {
            Value::String(s) => Some(Val::F(s.parse().ok()?)),
            Value::Array(a) => Some(Val::Arr(a.iter().map(Val::from_json).collect::<Option<_>>()?)),
            _ => None,
        }
    }
    pub fn to_arg(&self) -> Arg {
        match self {
            Val::F(x) => Arg::Value(Felt252::from(x.clone())),
            Val::Arr(v) => Arg::Array(v.iter().map(|x| x.to_arg()).collect()),
        }
    }
}

pub struct TypeTable<'a> {
    map: HashMap<u64, &'a ConcreteTypeLongId>,
}

const BUILTINS: &[&str] = &[
    "AddMod", "Bitwise", "GasBuiltin", "EcOp", "MulMod", "Pedersen", "Poseidon", "RangeCheck96",
    "RangeCheck", "SegmentArena", "System",
];

impl<'a> TypeTable<'a> {
    pub fn new(program: &'a Program) -> Self {
        TypeTable { map: program.type_declarations.iter().map(|d| (d.id.id, &d.long_id)).collect() }
    }
    pub fn long(&self, id: &ConcreteTypeId) -> Option<&'a ConcreteTypeLongId> {
        self.map.get(&id.id).copied()
    }
    pub fn is_builtin(&self, id: &ConcreteTypeId) -> bool {
        self.long(id).map(|l| BUILTINS.contains(&l.generic_id.0.as_str())).unwrap_or(false)
    }
    pub fn ty(&self, id: &ConcreteTypeId) -> Ty {
        let Some(long) = self.long(id) else { return Ty::Unsupported("undeclared".into()) };
        let g = long.generic_id.0.as_str();
        let uint = |bits: u32| Ty::Range(BigInt::zero(), BigInt::from(pow2(bits)) - 1);
        let sint = |bits: u32| Ty::Range(-BigInt::from(pow2(bits - 1)), BigInt::from(pow2(bits - 1)) - 1);
        match g {
            "felt252" => Ty::Felt,
            "u8" => uint(8),
            "u16" => uint(16),
            "u32" => uint(32),
            "u64" => uint(64),
            "u128" => uint(128),
            "i8" => sint(8),
            "i16" => sint(16),
            "i32" => sint(32),
            "i64" => sint(64),
            "i128" => sint(128),
            "bytes31" => uint(248),
            "BoundedInt" => match (&long.generic_args[0], &long.generic_args[1]) {
                (GenericArg::Value(lo), GenericArg::Value(hi)) => Ty::Range(lo.clone(), hi.clone()),
                _ => Ty::Unsupported("BoundedInt args".into()),
            },
            "NonZero" => match &long.generic_args[0] {
                GenericArg::Type(t) => Ty::NonZero(Box::new(self.ty(t))),
                _ => Ty::Unsupported("NonZero".into()),
            },
            "Snapshot" => match &long.generic_args[0] {
                GenericArg::Type(t) => self.ty(t),
                _ => Ty::Unsupported("Snapshot".into()),
            },
            "Struct" => {
                let mut members = vec![];
                for a in &long.generic_args[1..] {
                    match a {
                        GenericArg::Type(t) => members.push(self.ty(t)),
                        _ => return Ty::Unsupported("Struct".into()),
                    }
                }
                Ty::Struct(members)
            }
            "Enum" => {
                let variants: Vec<Ty> = long.generic_args[1..]
                    .iter()
                    .map(|a| match a {
                        GenericArg::Type(t) => self.ty(t),
                        _ => Ty::Unsupported("Enum".into()),
                    })
                    .collect();
                let all_unit = variants.iter().all(|v| matches!(v, Ty::Struct(m) if m.is_empty()));
                if all_unit && variants.len() <= 2 && !variants.is_empty() {
                    Ty::UnitEnum(variants.len())
                } else {
                    Ty::Unsupported(format!("Enum with {} variants", variants.len()))
                }
            }
            "Array" => match &long.generic_args[0] {
                GenericArg::Type(t) => Ty::Array(Box::new(self.ty(t))),
                _ => Ty::Unsupported("Array".into()),
            },
            other => Ty::Unsupported(other.to_string()),
        }
    }

    /// Whether values of this type contain no relocatable pointer (so that raw result felts are
    /// comparable between runs). `PanicResult` is unwrapped by the runner before we look.
    pub fn pointer_free(&self, id: &ConcreteTypeId) -> bool {
        let Some(long) = self.long(id) else { return false };
        let g = long.generic_id.0.as_str();
        match g {
            "felt252" | "u8" | "u16" | "u32" | "u64" | "u128" | "i8" | "i16" | "i32" | "i64" | "i128"
            | "bytes31" | "BoundedInt" | "ContractAddress" | "ClassHash" | "StorageAddress"
            | "StorageBaseAddress" | "QM31" => true,
            "NonZero" | "Snapshot" => match &long.generic_args[0] {
                GenericArg::Type(t) => self.pointer_free(t),
                _ => false,
            },
            "Struct" | "Enum" => long.generic_args[1..].iter().all(|a| match a {
                GenericArg::Type(t) => self.pointer_free(t),
                _ => false,
            }),
            "EcPoint" | "NonZeroEcPoint" => true,
            _ => false,
        }
    }

    /// A decoder for result values of this type, dereferencing arrays and boxes, or `None` when the
    /// type cannot be decoded (dictionaries, enums with more than two variants that hold pointers).
    pub fn ret_ty(&self, id: &ConcreteTypeId) -> Option<RetTy> {
        if self.pointer_free(id) {
            return Some(RetTy::Scalar(self.size(id)?));
        }
        let long = self.long(id)?;
        let g = long.generic_id.0.as_str();
        let arg_ty = |i: usize| match long.generic_args.get(i) {
            Some(GenericArg::Type(t)) => Some(t),
            _ => None,
        };
        match g {
            "Snapshot" => self.ret_ty(arg_ty(0)?),
            "Array" => Some(RetTy::Array(Box::new(self.ret_ty(arg_ty(0)?)?), self.size(arg_ty(0)?)?)),
            "Box" => Some(RetTy::Boxed(Box::new(self.ret_ty(arg_ty(0)?)?), self.size(arg_ty(0)?)?)),
            "Struct" => {
                let mut m = vec![];
                for i in 1..long.generic_args.len() {
                    m.push(self.ret_ty(arg_ty(i)?)?);
                }
                Some(RetTy::Struct(m))
            }
            "Enum" => {
                let n = long.generic_args.len() - 1;
                if n == 0 || n > 2 {
                    return None;
                }
                let mut v = vec![];
                for i in 1..=n {
                    v.push((self.ret_ty(arg_ty(i)?)?, self.size(arg_ty(i)?)?));
                }
                Some(RetTy::Enum(v, self.size(id)?))
            }
            _ => None,
        }
    }

    /// Size in felts of a value of the type (only for the types the decoder understands).
    pub fn size(&self, id: &ConcreteTypeId) -> Option<usize> {
        let long = self.long(id)?;
        let g = long.generic_id.0.as_str();
        let arg_ty = |i: usize| match long.generic_args.get(i) {
            Some(GenericArg::Type(t)) => Some(t),
            _ => None,
        };
        match g {
            "felt252" | "u8" | "u16" | "u32" | "u64" | "u128" | "i8" | "i16" | "i32" | "i64" | "i128" | "bytes31"
            | "BoundedInt" | "ContractAddress" | "ClassHash" | "StorageAddress" | "StorageBaseAddress" | "Box"
            | "Nullable" => Some(1),
            "QM31" => Some(1),
            "EcPoint" | "NonZeroEcPoint" => Some(2),
            "Array" => Some(2),
            "NonZero" | "Snapshot" => self.size(arg_ty(0)?),
            "Struct" => {
                let mut s = 0;
                for i in 1..long.generic_args.len() {
                    s += self.size(arg_ty(i)?)?;
                }
                Some(s)
            }
            "Enum" => {
                let mut m = 0;
                for i in 1..long.generic_args.len() {
                    m = m.max(self.size(arg_ty(i)?)?);
                }
                Some(1 + m)
            }
            _ => None,
        }
    }

    /// The decoder of the function's user-visible result (inside `PanicResult` when present).
    pub fn result_decoder(&self, id: &ConcreteTypeId) -> Option<RetTy> {
        let long = self.long(id)?;
        if long.generic_id.0 == "Enum"
            && matches!(&long.generic_args[0], GenericArg::UserType(ut)
                if ut.debug_name.as_ref().map(|n| n.starts_with("core::panics::PanicResult::")).unwrap_or(false))
        {
            return match &long.generic_args[1] {
                GenericArg::Type(t) => self.ret_ty(t),
                _ => None,
            };
        }
        self.ret_ty(id)
    }

    /// The user-visible return type is pointer free (the panic branch carries an array, which the
    /// runner dereferences itself).
    pub fn result_pointer_free(&self, id: &ConcreteTypeId) -> bool {
        let Some(long) = self.long(id) else { return false };
        if long.generic_id.0 == "Enum"
            && matches!(&long.generic_args[0], GenericArg::UserType(ut)
                if ut.debug_name.as_ref().map(|n| n.starts_with("core::panics::PanicResult::")).unwrap_or(false))
        {
            return match &long.generic_args[1] {
                GenericArg::Type(t) => self.pointer_free(t),
                _ => false,
            };
        }
        self.pointer_free(id)
    }
}

fn enc(v: &BigInt) -> BigUint {
    if v.is_negative() { (BigInt::from(prime()) + v).to_biguint().unwrap() } else { v.to_biguint().unwrap() }
}

impl Ty {
    pub fn supported(&self) -> bool {
        match self {
            Ty::Unsupported(_) => false,
            Ty::NonZero(t) | Ty::Array(t) => t.supported(),
            Ty::Struct(m) => m.iter().all(|t| t.supported()),
            _ => true,
        }
    }

    /// Boundary values of the type (each a flat list of argument values).
    pub fn boundaries(&self) -> Vec<Vec<Val>> {
        match self {
            Ty::Felt => {
                let p = prime();
                let mut v = vec![
                    BigUint::zero(),
                    BigUint::one(),
                    BigUint::from(2u32),
                    pow2(64),
                    pow2(128) - 1u32,
                    pow2(128),
                    pow2(128) + 1u32,
                    pow2(250),
                    (&p - 1u32) / 2u32,
                    (&p + 1u32) / 2u32,
                    &p - 2u32,
                    &p - 1u32,
                ];
                v.dedup();
                v.into_iter().map(|x| vec![Val::F(x)]).collect()
            }
            Ty::Range(lo, hi) => {
                let mut c: Vec<BigInt> = vec![lo.clone(), lo + 1, hi - 1, hi.clone(), (lo + hi) / 2, (lo + hi) / 2 + 1];
                for k in [-2i64, -1, 0, 1, 2, 3, 7, 10, 255, 256] {
                    c.push(BigInt::from(k));
                }
                let width: BigInt = hi - lo + 1;
                // Powers of two around the half-width (limb boundaries for wide types).
                let bits = width.bits();
                if bits > 4 {
                    let half = BigInt::one() << (bits / 2);
                    c.push(lo + &half - 1);
                    c.push(lo + &half);
                    c.push(lo + &half + 1);
                    c.push(hi - &half);
                }
                // Limb boundaries and the `prime / 2**128` zone, for wide ranges.
                for k in [64u32, 96, 123, 124, 125, 128] {
                    let p = BigInt::one() << k;
                    c.push(&p - 1);
                    c.push(p.clone());
                    c.push(&p + 1);
                    if k >= 64 {
                        c.push(&p + (BigInt::one() << (k - 32)));
                    }
                }
                c.retain(|x| x >= lo && x <= hi);
                c.sort();
                c.dedup();
                c.into_iter().map(|x| vec![Val::F(enc(&x))]).collect()
            }
            Ty::NonZero(t) => t
                .boundaries()
                .into_iter()
                .filter(|vals| vals.iter().any(|v| !matches!(v, Val::F(x) if x.is_zero())))
                .collect(),
            Ty::UnitEnum(n) => (0..*n).map(|i| vec![Val::F(BigUint::from(i))]).collect(),
            Ty::Struct(members) => {
                if members.is_empty() {
                    return vec![vec![]];
                }
                let sets: Vec<Vec<Vec<Val>>> = members.iter().map(|m| m.boundaries()).collect();
                let n = sets.iter().map(|s| s.len()).max().unwrap_or(1).max(1);
                let mut out = vec![];
                // Diagonal walks with different strides, so that every member boundary appears and
                // members are decorrelated.
                for stride in 0..3usize {
                    for i in 0..n {
                        let mut row = vec![];
                        for (j, s) in sets.iter().enumerate() {
                            if s.is_empty() {
                                return vec![];
                            }
                            row.extend(s[(i + j * stride * 5) % s.len()].clone());
                        }
                        out.push(row);
                    }
                }
                out.sort_by_key(|r| format!("{r:?}"));
                out.dedup();
                out
            }
            Ty::Array(t) => {
                let b = t.boundaries();
                if b.is_empty() {
                    return vec![vec![Val::Arr(vec![])]];
                }
                let mut out = vec![vec![Val::Arr(vec![])]];
                for len in [1usize, 2, 3, 4, 6, 9] {
                    for off in 0..2 {
                        let mut elems = vec![];
                        for i in 0..len {
                            elems.extend(b[(i * 3 + off * 7) % b.len()].clone());
                        }
                        out.push(vec![Val::Arr(elems)]);
                    }
                }
                out
            }
            Ty::Unsupported(_) => vec![],
        }
    }

    pub fn random(&self, rng: &mut Rng) -> Vec<Val> {
        match self {
            Ty::Felt => {
                let b = ((BigUint::from(rng.next_u128()) << 128) + BigUint::from(rng.next_u128())) % prime();
                // Bias towards small and limb-sized magnitudes.
                let b = match rng.below(4) {
                    0 => b % pow2(64),
                    1 => b % pow2(128),
                    _ => b,
                };
                vec![Val::F(b)]
            }
            Ty::Range(lo, hi) => {
                let width: BigUint = (hi - lo + BigInt::one()).to_biguint().unwrap();
                let mut r = (BigUint::from(rng.next_u128()) << 128) + BigUint::from(rng.next_u128());
                if rng.chance(1, 3) {
                    r %= pow2(16);
                }
                let x = lo + BigInt::from(r % width);
                vec![Val::F(enc(&x))]
            }
            Ty::NonZero(t) => loop {
                let v = t.random(rng);
                if v.iter().any(|v| !matches!(v, Val::F(x) if x.is_zero())) {
                    return v;
                }
            },
            Ty::UnitEnum(n) => vec![Val::F(BigUint::from(rng.below(*n)))],
            Ty::Struct(m) => m.iter().flat_map(|t| t.random(rng)).collect(),
            Ty::Array(t) => {
                let len = rng.below(6);
                vec![Val::Arr((0..len).flat_map(|_| t.random(rng)).collect())]
            }
            Ty::Unsupported(_) => vec![],
        }
    }
}

/// Input tuples for a parameter list: the cross product of boundaries when small, otherwise a
/// seeded sample of it, plus `n_random` fully random tuples.
pub fn input_tuples(params: &[Ty], cap: usize, n_random: usize, rng: &mut Rng) -> Vec<Vec<Val>> {
    let sets: Vec<Vec<Vec<Val>>> = params.iter().map(|t| t.boundaries()).collect();
    if sets.iter().any(|s| s.is_empty()) {
        return vec![];
    }
    let total: u128 = sets.iter().map(|s| s.len() as u128).product();
    let mut out: Vec<Vec<Val>> = vec![];
    let decode = |mut idx: u128| -> Vec<Val> {
        let mut row = vec![];
        for s in &sets {
            let k = (idx % s.len() as u128) as usize;
            idx /= s.len() as u128;
            row.extend(s[k].clone());
        }
        row
    };
    if total <= cap as u128 {
        for i in 0..total {
            out.push(decode(i));
        }
    } else {
        // Always the "all-first", "all-last" and equal-index diagonals, then a seeded sample.
        let maxlen = sets.iter().map(|s| s.len()).max().unwrap();
        for d in 0..maxlen.min(cap / 2) {
            let mut row = vec![];
            for s in &sets {
                row.extend(s[(d * s.len()) / maxlen].clone());
            }
            out.push(row);
        }
        // Relations between parameters (index == length, a == b, ...): all parameters at the
        // same small rank.
        for rank in 0..4usize {
            let mut row = vec![];
            for s in &sets {
                row.extend(s[rank.min(s.len() - 1)].clone());
            }
            out.push(row);
        }
        while out.len() < cap {
            let idx = rng.next_u128() % total;
            out.push(decode(idx));
        }
    }
    for _ in 0..n_random {
        out.push(params.iter().flat_map(|t| t.random(rng)).collect());
    }
    let mut seen = std::collections::BTreeSet::new();
    out.retain(|r| seen.insert(format!("{r:?}")));
    out
}
