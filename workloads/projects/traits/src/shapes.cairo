pub mod helpers;

pub trait Area<T> {
    fn area(self: @T) -> u64;
    fn describe(self: @T) -> ByteArray {
        format!("area={}", Self::area(self))
    }
}

#[derive(Drop, Copy)]
pub struct Circle {
    pub r: u64,
}

#[derive(Drop, Copy)]
pub struct Square {
    pub side: u64,
}

impl CircleArea of Area<Circle> {
    fn area(self: @Circle) -> u64 {
        helpers::scale(*self.r * *self.r, super::consts::PI_TIMES_100)
    }
}

impl SquareArea of Area<Square> {
    fn area(self: @Square) -> u64 {
        *self.side * *self.side
    }
}

pub fn total_area(mut areas: Span<u64>) -> u64 {
    let mut total = 0;
    while let Some(a) = areas.pop_front() {
        total += *a;
    }
    total
}
