mod ownable;
mod vault;
