pub trait Foo<T> {
    fn foo(x: T) -> felt252;
}
