// Two types with their own (never inlined) destructors.
pub struct DA {
    pub v: felt252,
}
pub struct DB {
    pub v: felt252,
}
pub impl DADestruct of Destruct<DA> {
    #[inline(never)]
    fn destruct(self: DA) nopanic {
        let DA { v: _ } = self;
    }
}
pub impl DBDestruct of Destruct<DB> {
    #[inline(never)]
    fn destruct(self: DB) nopanic {
        let DB { v: _ } = self;
    }
}
