// Self-referential types: their Sierra type is a cycle breaker whose declaration is read from the
// current definition when the program is assembled.
#[derive(Drop)]
pub enum List {
    Nil,
    Cons: (felt252, Box<List>),
}

#[derive(Drop)]
pub enum Tree {
    Leaf: u32,
    Node: (Box<Tree>, Box<Tree>),
}

pub fn pass(l: List) -> List {
    l
}

pub fn singleton(x: felt252) -> List {
    List::Cons((x, BoxTrait::new(List::Nil)))
}

pub fn head(l: List) -> felt252 {
    match l {
        List::Nil => 0,
        List::Cons((h, _t)) => h,
    }
}

pub fn leaf_or_zero(t: Tree) -> u32 {
    match t {
        Tree::Leaf(v) => v,
        Tree::Node(_) => 0,
    }
}
