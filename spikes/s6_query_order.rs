use std::path::PathBuf;
use cairo_lang_compiler::db::RootDatabase;
use cairo_lang_compiler::diagnostics::DiagnosticsReporter;
use cairo_lang_compiler::project::setup_project;
use cairo_lang_defs::db::DefsGroup;
use cairo_lang_filesystem::db::init_dev_corelib;
use cairo_lang_filesystem::ids::CrateInput;
use cairo_lang_lowering::db::LoweringGroup;
use cairo_lang_semantic::db::SemanticGroup;
use cairo_lang_utils::Intern;

fn lcg(s: &mut u64) -> u64 { *s = s.wrapping_mul(6364136223846793005).wrapping_add(1442695040888963407); *s >> 33 }

fn run(path: &PathBuf, seed: u64) -> String {
    let mut db = RootDatabase::builder().build().unwrap();
    init_dev_corelib(&mut db, PathBuf::from("/repo/corelib/src"));
    let main = setup_project(&mut db, path).unwrap();
    let mut s = seed;
    if seed != 0 {
        let db = &db;
        for ci in &main {
            let cid = ci.clone().into_crate_long_id(db).intern(db);
            let mut mods: Vec<_> = db.crate_modules(cid).iter().copied().collect();
            // Fisher-Yates
            for i in (1..mods.len()).rev() { let j = (lcg(&mut s) as usize) % (i + 1); mods.swap(i, j); }
            for m in mods {
                match lcg(&mut s) % 3 { 0 => { let _ = db.module_semantic_diagnostics(m); } 1 => { let _ = db.module_lowering_diagnostics(m); } _ => {} }
            }
        }
    }
    let mut diags = String::new();
    DiagnosticsReporter::write_to_string(&mut diags).with_crates(&main).check(&db);
    diags
}

fn main() {
    let path = PathBuf::from(std::env::args().nth(1).unwrap());
    let base = run(&path, 0);
    println!("{base}");
    let mut distinct = std::collections::BTreeMap::new();
    for seed in 1..40u64 {
        let d = run(&path, seed);
        *distinct.entry(d).or_insert(0) += 1;
    }
    println!("distinct outputs over 39 orders: {}", distinct.len());
    if distinct.len() > 1 || !distinct.contains_key(&base) {
        for (k, v) in &distinct { if k != &base { println!("=== ALT ({v} times)\n{k}"); break; } }
    }
}
