#[derive(Copy, Drop, PartialEq, Debug)]
pub struct Pair {
    pub a: u32,
    pub b: u32,
}

pub trait PairTrait {
    fn weight(self: @Pair) -> u32;
    fn swap(self: Pair) -> Pair;
}

impl PairImpl of PairTrait {
    fn weight(self: @Pair) -> u32 {
        *self.a * 2 + *self.b
    }
    fn swap(self: Pair) -> Pair {
        Pair { a: self.b, b: self.a }
    }
}

#[inline(never)]
pub fn gcd(a: u32, b: u32) -> u32 {
    if b == 0 {
        return a;
    }
    gcd(b, a % b)
}

#[inline(always)]
pub fn clamp<T, +PartialOrd<T>, +Copy<T>, +Drop<T>>(x: T, lo: T, hi: T) -> T {
    if x < lo {
        lo
    } else if x > hi {
        hi
    } else {
        x
    }
}
