fn twice() -> felt252 {
    1
}
fn twice() -> felt252 {
    2
}
struct S {
    a: felt252,
    a: felt252,
}
enum E {
    V,
    V,
}
fn params(x: u8, x: u8) -> u8 {
    x
}
