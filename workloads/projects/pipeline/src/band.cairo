// Helpers of graded size around the inlining threshold: whether each is inlined into its caller
// depends on the size estimate of the helper.

pub fn helper_0(a: felt252, b: felt252, c: felt252) -> felt252 {
    let mut acc = a;
    acc = acc + b + 0;
    acc = acc * c;
    acc = acc - b * a;
    acc = acc + b + 3;
    acc = acc * c;
    acc = acc - b * a;
    acc = acc + b + 6;
    acc = acc * c;
    acc = acc - b * a;
    acc = acc + b + 9;
    acc
}
pub fn caller_0(x: felt252) -> felt252 {
    helper_0(x, x + 1, 3) + helper_0(7, x, x + 0)
}

pub fn helper_1(a: felt252, b: felt252, c: felt252) -> felt252 {
    let mut acc = a;
    acc = acc + b + 0;
    acc = acc * c;
    acc = acc - b * a;
    acc = acc + b + 3;
    acc = acc * c;
    acc = acc - b * a;
    acc = acc + b + 6;
    acc = acc * c;
    acc = acc - b * a;
    acc = acc + b + 9;
    acc = acc * c;
    acc = acc - b * a;
    acc = acc + b + 12;
    acc = acc * c;
    acc = acc - b * a;
    acc = acc + b + 15;
    acc = acc * c;
    acc = acc - b * a;
    acc = acc + b + 18;
    acc = acc * c;
    acc = acc - b * a;
    acc = acc + b + 21;
    acc
}
pub fn caller_1(x: felt252) -> felt252 {
    helper_1(x, x + 1, 3) + helper_1(7, x, x + 1)
}

pub fn helper_2(a: felt252, b: felt252, c: felt252) -> felt252 {
    let mut acc = a;
    acc = acc + b + 0;
    acc = acc * c;
    acc = acc - b * a;
    acc = acc + b + 3;
    acc = acc * c;
    acc = acc - b * a;
    acc = acc + b + 6;
    acc = acc * c;
    acc = acc - b * a;
    acc = acc + b + 9;
    acc = acc * c;
    acc = acc - b * a;
    acc = acc + b + 12;
    acc = acc * c;
    acc = acc - b * a;
    acc = acc + b + 15;
    acc = acc * c;
    acc = acc - b * a;
    acc = acc + b + 18;
    acc = acc * c;
    acc = acc - b * a;
    acc = acc + b + 21;
    acc = acc * c;
    acc = acc - b * a;
    acc = acc + b + 24;
    acc = acc * c;
    acc = acc - b * a;
    acc = acc + b + 27;
    acc = acc * c;
    acc = acc - b * a;
    acc = acc + b + 30;
    acc = acc * c;
    acc = acc - b * a;
    acc = acc + b + 33;
    acc
}
pub fn caller_2(x: felt252) -> felt252 {
    helper_2(x, x + 1, 3) + helper_2(7, x, x + 2)
}

pub fn helper_3(a: felt252, b: felt252, c: felt252) -> felt252 {
    let mut acc = a;
    acc = acc + b + 0;
    acc = acc * c;
    acc = acc - b * a;
    acc = acc + b + 3;
    acc = acc * c;
    acc = acc - b * a;
    acc = acc + b + 6;
    acc = acc * c;
    acc = acc - b * a;
    acc = acc + b + 9;
    acc = acc * c;
    acc = acc - b * a;
    acc = acc + b + 12;
    acc = acc * c;
    acc = acc - b * a;
    acc = acc + b + 15;
    acc = acc * c;
    acc = acc - b * a;
    acc = acc + b + 18;
    acc = acc * c;
    acc = acc - b * a;
    acc = acc + b + 21;
    acc = acc * c;
    acc = acc - b * a;
    acc = acc + b + 24;
    acc = acc * c;
    acc = acc - b * a;
    acc = acc + b + 27;
    acc = acc * c;
    acc = acc - b * a;
    acc = acc + b + 30;
    acc = acc * c;
    acc = acc - b * a;
    acc = acc + b + 33;
    acc = acc * c;
    acc = acc - b * a;
    acc = acc + b + 36;
    acc = acc * c;
    acc = acc - b * a;
    acc = acc + b + 39;
    acc = acc * c;
    acc = acc - b * a;
    acc = acc + b + 42;
    acc = acc * c;
    acc = acc - b * a;
    acc = acc + b + 45;
    acc
}
pub fn caller_3(x: felt252) -> felt252 {
    helper_3(x, x + 1, 3) + helper_3(7, x, x + 3)
}

pub fn helper_4(a: felt252, b: felt252, c: felt252) -> felt252 {
    let mut acc = a;
    acc = acc + b + 0;
    acc = acc * c;
    acc = acc - b * a;
    acc = acc + b + 3;
    acc = acc * c;
    acc = acc - b * a;
    acc = acc + b + 6;
    acc = acc * c;
    acc = acc - b * a;
    acc = acc + b + 9;
    acc = acc * c;
    acc = acc - b * a;
    acc = acc + b + 12;
    acc = acc * c;
    acc = acc - b * a;
    acc = acc + b + 15;
    acc = acc * c;
    acc = acc - b * a;
    acc = acc + b + 18;
    acc = acc * c;
    acc = acc - b * a;
    acc = acc + b + 21;
    acc = acc * c;
    acc = acc - b * a;
    acc = acc + b + 24;
    acc = acc * c;
    acc = acc - b * a;
    acc = acc + b + 27;
    acc = acc * c;
    acc = acc - b * a;
    acc = acc + b + 30;
    acc = acc * c;
    acc = acc - b * a;
    acc = acc + b + 33;
    acc = acc * c;
    acc = acc - b * a;
    acc = acc + b + 36;
    acc = acc * c;
    acc = acc - b * a;
    acc = acc + b + 39;
    acc = acc * c;
    acc = acc - b * a;
    acc = acc + b + 42;
    acc = acc * c;
    acc = acc - b * a;
    acc = acc + b + 45;
    acc = acc * c;
    acc = acc - b * a;
    acc = acc + b + 48;
    acc = acc * c;
    acc = acc - b * a;
    acc = acc + b + 51;
    acc = acc * c;
    acc = acc - b * a;
    acc = acc + b + 54;
    acc = acc * c;
    acc = acc - b * a;
    acc = acc + b + 57;
    acc
}
pub fn caller_4(x: felt252) -> felt252 {
    helper_4(x, x + 1, 3) + helper_4(7, x, x + 4)
}

pub fn helper_5(a: felt252, b: felt252, c: felt252) -> felt252 {
    let mut acc = a;
    acc = acc + b + 0;
    acc = acc * c;
    acc = acc - b * a;
    acc = acc + b + 3;
    acc = acc * c;
    acc = acc - b * a;
    acc = acc + b + 6;
    acc = acc * c;
    acc = acc - b * a;
    acc = acc + b + 9;
    acc = acc * c;
    acc = acc - b * a;
    acc = acc + b + 12;
    acc = acc * c;
    acc = acc - b * a;
    acc = acc + b + 15;
    acc = acc * c;
    acc = acc - b * a;
    acc = acc + b + 18;
    acc = acc * c;
    acc = acc - b * a;
    acc = acc + b + 21;
    acc = acc * c;
    acc = acc - b * a;
    acc = acc + b + 24;
    acc = acc * c;
    acc = acc - b * a;
    acc = acc + b + 27;
    acc = acc * c;
    acc = acc - b * a;
    acc = acc + b + 30;
    acc = acc * c;
    acc = acc - b * a;
    acc = acc + b + 33;
    acc = acc * c;
    acc = acc - b * a;
    acc = acc + b + 36;
    acc = acc * c;
    acc = acc - b * a;
    acc = acc + b + 39;
    acc = acc * c;
    acc = acc - b * a;
    acc = acc + b + 42;
    acc = acc * c;
    acc = acc - b * a;
    acc = acc + b + 45;
    acc = acc * c;
    acc = acc - b * a;
    acc = acc + b + 48;
    acc = acc * c;
    acc = acc - b * a;
    acc = acc + b + 51;
    acc = acc * c;
    acc = acc - b * a;
    acc = acc + b + 54;
    acc = acc * c;
    acc = acc - b * a;
    acc = acc + b + 57;
    acc = acc * c;
    acc = acc - b * a;
    acc = acc + b + 60;
    acc = acc * c;
    acc = acc - b * a;
    acc = acc + b + 63;
    acc = acc * c;
    acc = acc - b * a;
    acc = acc + b + 66;
    acc = acc * c;
    acc = acc - b * a;
    acc = acc + b + 69;
    acc
}
pub fn caller_5(x: felt252) -> felt252 {
    helper_5(x, x + 1, 3) + helper_5(7, x, x + 5)
}

pub fn helper_6(a: felt252, b: felt252, c: felt252) -> felt252 {
    let mut acc = a;
    acc = acc + b + 0;
    acc = acc * c;
    acc = acc - b * a;
    acc = acc + b + 3;
    acc = acc * c;
    acc = acc - b * a;
    acc = acc + b + 6;
    acc = acc * c;
    acc = acc - b * a;
    acc = acc + b + 9;
    acc = acc * c;
    acc = acc - b * a;
    acc = acc + b + 12;
    acc = acc * c;
    acc = acc - b * a;
    acc = acc + b + 15;
    acc = acc * c;
    acc = acc - b * a;
    acc = acc + b + 18;
    acc = acc * c;
    acc = acc - b * a;
    acc = acc + b + 21;
    acc = acc * c;
    acc = acc - b * a;
    acc = acc + b + 24;
    acc = acc * c;
    acc = acc - b * a;
    acc = acc + b + 27;
    acc = acc * c;
    acc = acc - b * a;
    acc = acc + b + 30;
    acc = acc * c;
    acc = acc - b * a;
    acc = acc + b + 33;
    acc = acc * c;
    acc = acc - b * a;
    acc = acc + b + 36;
    acc = acc * c;
    acc = acc - b * a;
    acc = acc + b + 39;
    acc = acc * c;
    acc = acc - b * a;
    acc = acc + b + 42;
    acc = acc * c;
    acc = acc - b * a;
    acc = acc + b + 45;
    acc = acc * c;
    acc = acc - b * a;
    acc = acc + b + 48;
    acc = acc * c;
    acc = acc - b * a;
    acc = acc + b + 51;
    acc = acc * c;
    acc = acc - b * a;
    acc = acc + b + 54;
    acc = acc * c;
    acc = acc - b * a;
    acc = acc + b + 57;
    acc = acc * c;
    acc = acc - b * a;
    acc = acc + b + 60;
    acc = acc * c;
    acc = acc - b * a;
    acc = acc + b + 63;
    acc = acc * c;
    acc = acc - b * a;
    acc = acc + b + 66;
    acc = acc * c;
    acc = acc - b * a;
    acc = acc + b + 69;
    acc = acc * c;
    acc = acc - b * a;
    acc = acc + b + 72;
    acc = acc * c;
    acc = acc - b * a;
    acc = acc + b + 75;
    acc = acc * c;
    acc = acc - b * a;
    acc = acc + b + 78;
    acc = acc * c;
    acc = acc - b * a;
    acc = acc + b + 81;
    acc
}
pub fn caller_6(x: felt252) -> felt252 {
    helper_6(x, x + 1, 3) + helper_6(7, x, x + 6)
}

pub fn helper_7(a: felt252, b: felt252, c: felt252) -> felt252 {
    let mut acc = a;
    acc = acc + b + 0;
    acc = acc * c;
    acc = acc - b * a;
    acc = acc + b + 3;
    acc = acc * c;
    acc = acc - b * a;
    acc = acc + b + 6;
    acc = acc * c;
    acc = acc - b * a;
    acc = acc + b + 9;
    acc = acc * c;
    acc = acc - b * a;
    acc = acc + b + 12;
    acc = acc * c;
    acc = acc - b * a;
    acc = acc + b + 15;
    acc = acc * c;
    acc = acc - b * a;
    acc = acc + b + 18;
    acc = acc * c;
    acc = acc - b * a;
    acc = acc + b + 21;
    acc = acc * c;
    acc = acc - b * a;
    acc = acc + b + 24;
    acc = acc * c;
    acc = acc - b * a;
    acc = acc + b + 27;
    acc = acc * c;
    acc = acc - b * a;
    acc = acc + b + 30;
    acc = acc * c;
    acc = acc - b * a;
    acc = acc + b + 33;
    acc = acc * c;
    acc = acc - b * a;
    acc = acc + b + 36;
    acc = acc * c;
    acc = acc - b * a;
    acc = acc + b + 39;
    acc = acc * c;
    acc = acc - b * a;
    acc = acc + b + 42;
    acc = acc * c;
    acc = acc - b * a;
    acc = acc + b + 45;
    acc = acc * c;
    acc = acc - b * a;
    acc = acc + b + 48;
    acc = acc * c;
    acc = acc - b * a;
    acc = acc + b + 51;
    acc = acc * c;
    acc = acc - b * a;
    acc = acc + b + 54;
    acc = acc * c;
    acc = acc - b * a;
    acc = acc + b + 57;
    acc = acc * c;
    acc = acc - b * a;
    acc = acc + b + 60;
    acc = acc * c;
    acc = acc - b * a;
    acc = acc + b + 63;
    acc = acc * c;
    acc = acc - b * a;
    acc = acc + b + 66;
    acc = acc * c;
    acc = acc - b * a;
    acc = acc + b + 69;
    acc = acc * c;
    acc = acc - b * a;
    acc = acc + b + 72;
    acc = acc * c;
    acc = acc - b * a;
    acc = acc + b + 75;
    acc = acc * c;
    acc = acc - b * a;
    acc = acc + b + 78;
    acc = acc * c;
    acc = acc - b * a;
    acc = acc + b + 81;
    acc = acc * c;
    acc = acc - b * a;
    acc = acc + b + 84;
    acc = acc * c;
    acc = acc - b * a;
    acc = acc + b + 87;
    acc = acc * c;
    acc = acc - b * a;
    acc = acc + b + 90;
    acc = acc * c;
    acc = acc - b * a;
    acc = acc + b + 93;
    acc
}
pub fn caller_7(x: felt252) -> felt252 {
    helper_7(x, x + 1, 3) + helper_7(7, x, x + 7)
}
