//! simhint — C03: deterministic simulation of a dishonest prover.
//!
//! `simhint run --tier quick|thorough`, `simhint replay <file>`, `simhint list`.

mod engine;
mod instgen;
mod prover;
mod types;

use std::collections::{BTreeMap, BTreeSet};
use std::path::{Path, PathBuf};
use std::time::Instant;

use cairo_lang_compiler::db::RootDatabase;
use cairo_lang_compiler::diagnostics::DiagnosticsReporter;
use cairo_lang_compiler::project::setup_project;
use cairo_lang_filesystem::db::init_dev_corelib;
use cairo_lang_filesystem::ids::CrateInput;
use cairo_lang_sierra::program::Program;
use cairo_lang_sierra_generator::db::SierraGenGroup;
use cairo_lang_sierra_generator::program_generator::find_all_free_function_ids;
use cairo_lang_sierra_generator::replace_ids::replace_sierra_ids_in_program;
use engine::{Outcome, Target, Verdict, judge, lie_json};
use prover::{Fault, OccLog, applicable};
use serde_json::{Value, json};
use simcore::{Counters, Evidence, KnownFindings, Rng, fnv64, harness_error, hex64, mix, par_map};
use types::{Val, input_tuples};

struct Opts {
    tier: String,
    catalogue: PathBuf,
    log: Option<PathBuf>,
    workers: usize,
    only: Option<String>,
    budget_s: u64,
    evidence: Option<PathBuf>,
}

/// Compiles a single-file crate and returns one Sierra program per non-generic free function.
fn compile_file(path: &Path) -> Result<Vec<(String, Program)>, String> {
    let mut db = RootDatabase::builder().build().map_err(|e| e.to_string())?;
    init_dev_corelib(&mut db, simcore::repo_root().join("corelib/src"));
    let main = setup_project(&mut db, path).map_err(|e| format!("{e:?}"))?;
    let mut diags = String::new();
    let bad = DiagnosticsReporter::write_to_string(&mut diags).with_crates(&main).allow_warnings().check(&db);
    if bad {
        return Err(format!("diagnostics in {path:?}:\n{diags}"));
    }
    let crate_ids = CrateInput::into_crate_ids(&db, main.clone());
    let funcs = find_all_free_function_ids(&db, crate_ids).map_err(|_| "function discovery failed".to_string())?;
    let mut out = vec![];
    for f in funcs {
        let full = f.full_path(&db);
        let name = full.rsplit("::").next().unwrap().to_string();
        let p = db
            .get_sierra_program_for_functions(vec![f])
            .map_err(|_| format!("sierra generation failed for {full}"))?;
        let program = replace_sierra_ids_in_program(&db, &p.program);
        out.push((name, program));
    }
    Ok(out)
}

#[derive(Clone)]
struct Scenario {
    target: usize,
    args: Vec<Val>,
    gas: Option<usize>,
    plan: Vec<Fault>,
    ec_seed: u64,
}

struct Finding {
    scenario: Scenario,
    class: String,
    detail: String,
    signature: String,
}

struct Batch {
    evaluations: u64,
    honest_runs: u64,
    counters: Counters,
    distinct: BTreeSet<String>,
    sites: BTreeSet<String>,
    findings: Vec<Finding>,
    log: Vec<String>,
    samples: Vec<Value>,
    vm_steps: u64,
    skipped: Vec<String>,
}

impl Batch {
    fn new() -> Self {
        Batch {
            evaluations: 0,
            honest_runs: 0,
            counters: Counters::default(),
            distinct: BTreeSet::new(),
            sites: BTreeSet::new(),
            findings: vec![],
            log: vec![],
            samples: vec![],
            vm_steps: 0,
            skipped: vec![],
        }
    }
    fn merge(&mut self, o: Batch) {
        self.evaluations += o.evaluations;
        self.honest_runs += o.honest_runs;
        self.counters.merge(&o.counters);
        self.distinct.extend(o.distinct);
        self.sites.extend(o.sites);
        self.findings.extend(o.findings);
        self.log.extend(o.log);
        if self.samples.len() < 12 {
            self.samples.extend(o.samples.into_iter().take(2));
        }
        self.vm_steps += o.vm_steps;
        self.skipped.extend(o.skipped);
    }
}

fn args_str(args: &[Val]) -> String {
    serde_json::to_string(&Value::Array(args.iter().map(|a| a.to_json()).collect())).unwrap()
}

fn class_of(msg: &str) -> String {
    msg.split(':').next().unwrap_or(msg).to_string()
}

/// Picks the hint occurrences to attack in one honest run.
fn pick_occurrences(log: &[OccLog], cap: usize, rng: &mut Rng) -> Vec<usize> {
    if log.len() <= cap {
        return (0..log.len()).collect();
    }
    let mut chosen = BTreeSet::new();
    let mut per_pc: BTreeMap<usize, Vec<usize>> = BTreeMap::new();
    for (i, o) in log.iter().enumerate() {
        per_pc.entry(o.pc).or_default().push(i);
    }
    for v in per_pc.values() {
        chosen.insert(v[0]);
        if v.len() > 1 {
            chosen.insert(v[1]);
        }
        chosen.insert(*v.last().unwrap());
    }
    while chosen.len() < cap {
        chosen.insert(rng.below(log.len()));
    }
    chosen.into_iter().collect()
}

struct Tier {
    input_cap: usize,
    n_random_inputs: usize,
    occ_cap: usize,
    multi_fault_runs: usize,
    /// Gas given on top of the function's initial requirement in the reference budget.
    ample_gas: usize,
    /// Scenarios whose honest run is longer than this are skipped (counted).
    max_steps_honest: usize,
}

/// The inputs attacked for one target in one round.
fn inputs_for(t: &Target, tier: &Tier, seed: u64, round: u64) -> Vec<Vec<Val>> {
    if t.supported.is_err() {
        return vec![];
    }
    let tseed = mix(mix(seed, round), fnv64(format!("{}::{}", t.source_file, t.name).as_bytes()));
    let mut rng = Rng::stream(tseed, "inputs");
    // Generated instantiations are few and their interesting inputs are sparse: a larger sample.
    let boost = if t.name.starts_with("gen_") && t.name != "gen_compose" { 3 } else { 1 };
    let (mut cap, nrand) = if round == 0 { (tier.input_cap * boost, tier.n_random_inputs) } else { (0, tier.input_cap) };
    // Composed functions have many hint occurrences per run: fewer inputs each.
    if t.name == "gen_compose" {
        cap = (cap / 3).max(if round == 0 { 4 } else { 0 });
    }
    if t.params.is_empty() {
        if round == 0 { vec![vec![]] } else { vec![] }
    } else {
        input_tuples(&t.params, cap, nrand, &mut rng)
    }
}

/// All work for one (target, input) in one round.
fn attack_input(ti: usize, t: &Target, args: Vec<Val>, tier: &Tier, seed: u64, round: u64, keep_log: bool) -> Batch {
    let mut b = Batch::new();
    let tseed = mix(mix(seed, round), fnv64(format!("{}::{}", t.source_file, t.name).as_bytes()));
    let mut rng = Rng::stream(mix(tseed, fnv64(args_str(&args).as_bytes())), "gas");
    let ample: usize = t.initial_required_gas + tier.ample_gas;
    {
        // Honest reference with the ample budget, then derive tight gas budgets from what it used.
        let mut budgets: Vec<Option<usize>> = vec![Some(ample)];
        let h0 = t.run(&args, Some(ample), &[], tseed, true, tier.max_steps_honest + 1);
        b.honest_runs += 1;
        if let Outcome::Ok { gas, .. } = &h0.outcome {
            let uses_gas = h0.log.iter().any(|o| t.site(o.pc).contains("withdraw_gas"));
            if uses_gas && let Ok(left) = gas.parse::<usize>() {
                let used = tier.ample_gas.saturating_sub(left);
                let mut ks = vec![0, used / 4, used / 2, used.saturating_sub(1), used, used + 1];
                if round > 0 {
                    ks = vec![rng.below(used + 2)];
                }
                ks.sort();
                ks.dedup();
                for k in ks {
                    budgets.push(Some(t.initial_required_gas + k));
                }
            }
        }
        for gas in budgets {
            let hrep = if gas == Some(ample) { None } else {
                b.honest_runs += 1;
                Some(t.run(&args, gas, &[], tseed, true, tier.max_steps_honest + 1))
            };
            let hrep = hrep.as_ref().unwrap_or(&h0);
            let honest = hrep.outcome.clone();
            let hlog = &hrep.log;
            let Outcome::Ok { .. } = honest else {
                b.counters.inc(if honest == Outcome::Timeout { "scenario_skipped_honest_run_too_long" } else { "scenario_skipped_honest_run_failed" });
                if keep_log {
                    b.log.push(format!("{}::{} {} gas={gas:?} HONEST-NOT-OK {honest:?}", t.source_file, t.name, args_str(&args)));
                }
                continue;
            };
            // A lie may lengthen the run; gas bounds it, the step budget cuts what is left.
            let max_steps = hrep.vm_steps * 8 + 200_000;
            for o in hlog.iter() {
                b.sites.insert(format!("{}/{}", t.site(o.pc), o.kind));
            }
            let mut orng = Rng::stream(mix(tseed, fnv64(args_str(&args).as_bytes())), "occ");
            let occs = pick_occurrences(hlog, tier.occ_cap, &mut orng);
            // Tier 1: every single fault (occurrence x strategy x variant) — enumerated.
            let mut plans: Vec<Vec<Fault>> = vec![];
            for &oi in &occs {
                for (strat, variant) in applicable(&hlog[oi]) {
                    plans.push(vec![Fault { occ: oi, strat, variant, salt: mix(tseed, oi as u64) }]);
                }
            }
            // Tier 1b: a witness lie together with a flipped branch flag right before or after it in
            // the same libfunc (a cheating prover picks the branch that suits its witness; with a
            // single lie the next flag is computed honestly from the lied value).
            let is_flag = |o: &OccLog| {
                matches!(o.kind, "TestLessThan" | "TestLessThanOrEqual" | "TestLessThanOrEqualAddress")
            };
            for w in occs.windows(2) {
                let (a, b) = (w[0], w[1]);
                if b != a + 1 || t.site(hlog[a].pc) != t.site(hlog[b].pc) {
                    continue;
                }
                let (wit, flag, flag_first) = if is_flag(&hlog[b]) && !is_flag(&hlog[a]) {
                    (a, b, false)
                } else if is_flag(&hlog[a]) && !is_flag(&hlog[b]) {
                    (b, a, true)
                } else {
                    continue;
                };
                for (strat, variant) in applicable(&hlog[wit]) {
                    // Keep the pair space small: algebraic lies and the two classic off-by-ones.
                    if strat != "alg" && strat != "plus1" && strat != "minus1" {
                        continue;
                    }
                    let mut plan = vec![
                        Fault { occ: wit, strat, variant, salt: mix(tseed, wit as u64) },
                        Fault { occ: flag, strat: "flip".into(), variant: 0, salt: 0 },
                    ];
                    plan.sort_by_key(|f| f.occ);
                    let _ = flag_first;
                    plans.push(plan);
                }
            }
            // Tier 2: seeded multi-fault sequences.
            if !hlog.is_empty() {
                for _ in 0..tier.multi_fault_runs {
                    let n = 2 + orng.below(2);
                    let mut plan: Vec<Fault> = vec![];
                    for _ in 0..n {
                        let oi = orng.below(hlog.len());
                        if plan.iter().any(|f| f.occ == oi) {
                            continue;
                        }
                        let app = applicable(&hlog[oi]);
                        if app.is_empty() {
                            continue;
                        }
                        let (strat, variant) = app[orng.below(app.len())].clone();
                        plan.push(Fault { occ: oi, strat, variant, salt: orng.next_u64() });
                    }
                    plan.sort_by_key(|f| f.occ);
                    if plan.len() >= 2 {
                        plans.push(plan);
                    }
                }
            }
            for plan in plans {
                let rep = t.run(&args, gas, &plan, tseed, false, max_steps);
                b.evaluations += 1;
                b.vm_steps += rep.vm_steps as u64;
                let verdict = judge(&honest, &rep);
                let vname = match &verdict {
                    Verdict::NotInjected => "not_injected",
                    Verdict::Rejected => "rejected",
                    Verdict::Harmless => "harmless",
                    Verdict::Inconclusive => "inconclusive_step_budget",
                    Verdict::Violation(_) => "VIOLATION",
                };
                b.counters.inc(&format!("verdict/{vname}"));
                if plan.len() > 1 {
                    b.counters.inc(&format!("multi_fault/{vname}"));
                }
                if rep.prover_panicked {
                    b.counters.inc("honest_prover_code_panicked_after_lie");
                }
                if !rep.applied.is_empty() {
                    let d = rep.survived_steps;
                    let bucket = match d { 0..=1 => "0-1", 2..=5 => "2-5", 6..=20 => "6-20", 21..=100 => "21-100", 101..=1000 => "101-1000", _ => ">1000" };
                    b.counters.inc(&format!("survival_vm_steps/{vname}/{bucket}"));
                }
                for l in &rep.applied {
                    let site = t.site(l.pc);
                    b.counters.inc(&format!("fired/{}", if l.strat == "alg" { format!("alg:{}", l.kind) } else { l.strat.clone() }));
                    b.counters.inc(&format!("fired_at_hint/{}", l.kind));
                    b.distinct.insert(format!("{site}|{}|{}|{}|{vname}", l.kind, l.strat, l.variant));
                }
                if keep_log {
                    b.log.push(format!(
                        "{}::{} {} gas={gas:?} plan={} -> {vname} lies={} out={:?}",
                        t.source_file,
                        t.name,
                        args_str(&args),
                        serde_json::to_string(&plan).unwrap(),
                        rep.applied.iter().map(|l| format!("{}@{}:{:?}", l.kind, l.occ, l.cells)).collect::<Vec<_>>().join(";"),
                        rep.outcome,
                    ));
                }
                if b.samples.len() < 2 && !rep.applied.is_empty() && (b.evaluations % 7 == 3) {
                    b.samples.push(json!({
                        "function": format!("{}::{}", t.source_file, t.name),
                        "args": args.iter().map(|a| a.to_json()).collect::<Vec<_>>(),
                        "gas": gas,
                        "lies": rep.applied.iter().map(|l| lie_json(l, &t.site(l.pc))).collect::<Vec<_>>(),
                        "honest": format!("{honest:?}"),
                        "with_lie": format!("{:?}", rep.outcome),
                        "verdict": vname,
                    }));
                }
                if let Verdict::Violation(msg) = verdict {
                    let l = &rep.applied[0];
                    let signature = format!("{}|{}|{}", t.site(l.pc), l.kind, if l.strat == "alg" { format!("alg:{}", l.variant) } else { l.strat.clone() });
                    b.findings.push(Finding {
                        scenario: Scenario { target: ti, args: args.clone(), gas, plan: plan.clone(), ec_seed: tseed },
                        class: class_of(&msg),
                        detail: msg,
                        signature,
                    });
                }
            }
        }
    }
    b
}

pub static GEN_FAILED_LATE: std::sync::Mutex<Vec<String>> = std::sync::Mutex::new(Vec::new());
pub static GEN_STATS: std::sync::Mutex<(usize, usize)> = std::sync::Mutex::new((0, 0));

fn gen_dir() -> PathBuf {
    simcore::verif_root().join(format!("sim/scratch/c03-gen-{}", std::process::id()))
}

fn load_targets(catalogue: &Path, only: &Option<String>, workers: usize, n_generated: usize) -> Vec<Target> {
    let mut files: Vec<PathBuf> = std::fs::read_dir(catalogue)
        .unwrap_or_else(|e| harness_error(&format!("cannot read {catalogue:?}: {e}")))
        .filter_map(|e| e.ok().map(|e| e.path()))
        .filter(|p| p.extension().map(|x| x == "cairo").unwrap_or(false))
        .collect();
    files.sort();
    // Corpus: the repository's own example programs (files that do not compile as a single-file
    // crate are left out).
    let n_catalogue = files.len();
    if std::env::var("VERIF_C03_NO_CORPUS").is_err() {
        let mut extra: Vec<PathBuf> = std::fs::read_dir(simcore::repo_root().join("examples"))
            .map(|r| r.filter_map(|e| e.ok().map(|e| e.path())).collect())
            .unwrap_or_default();
        extra.retain(|p| p.extension().map(|x| x == "cairo").unwrap_or(false) && p.file_name().map(|n| n != "lib.cairo").unwrap_or(false));
        extra.sort();
        files.extend(extra);
    }
    // Generated instantiations (range-dependent CASM); rejected ones are counted, not fatal.
    let n_before_gen = files.len();
    files.extend(instgen::generate(&gen_dir(), simcore::verif_seed(), n_generated));
    let compiled = par_map(files.len(), workers, 256, |i| {
        std::panic::catch_unwind(std::panic::AssertUnwindSafe(|| compile_file(&files[i])))
            .unwrap_or_else(|_| Err(format!("the compiler panicked on {:?}", files[i])))
    });
    let mut progs: Vec<(String, String, Program)> = vec![];
    let mut errors = vec![];
    for (k, (f, c)) in files.iter().zip(compiled).enumerate() {
        let stem = if k < n_catalogue { f.file_name().unwrap().to_string_lossy().to_string() } else { f.to_string_lossy().to_string() };
        if k >= n_before_gen {
            let mut g = GEN_STATS.lock().unwrap();
            if c.is_ok() { g.0 += 1 } else { g.1 += 1 }
        }
        if k >= n_catalogue && c.is_err() {
            continue;
        }
        match c {
            Ok(v) => {
                for (name, p) in v {
                    if only.as_ref().map(|o| format!("{stem}::{name}").contains(o.as_str())).unwrap_or(true) {
                        progs.push((stem.clone(), name, p));
                    }
                }
            }
            Err(e) => errors.push(e),
        }
    }
    if !errors.is_empty() {
        harness_error(&format!("workload does not compile:\n{}", errors.join("\n")));
    }
    progs.sort_by(|a, b| (&a.0, &a.1).cmp(&(&b.0, &b.1)));
    let targets = par_map(progs.len(), workers, 256, |i| {
        let (file, name, p) = &progs[i];
        std::panic::catch_unwind(std::panic::AssertUnwindSafe(|| Target::new(name, file, p.clone())))
            .unwrap_or_else(|_| Err("panic while building the runner".to_string()))
            .map_err(|e| format!("{file}::{name}: {e}"))
    });
    let mut out = vec![];
    for (t, (file, _, _)) in targets.into_iter().zip(progs.iter()) {
        match t {
            Ok(t) => out.push(t),
            // Generated instantiations and corpus files may also be refused (or crash the
            // compiler) after Sierra generation; that is not a C03 matter: counted, not fatal.
            Err(e) if file.starts_with('/') => {
                if file.contains("/gen_") {
                    let mut g = GEN_STATS.lock().unwrap();
                    g.0 = g.0.saturating_sub(1);
                    g.1 += 1;
                }
                GEN_FAILED_LATE.lock().unwrap().push(e);
            }
            Err(e) => harness_error(&format!("cannot prepare target: {e}")),
        }
    }
    out
}

fn replay_json(t: &Target, catalogue: &Path, s: &Scenario, f: &Finding, seed: u64, tseed: u64) -> Value {
    let src = std::fs::read_to_string(catalogue.join(&t.source_file)).unwrap_or_default();
    let file_name = Path::new(&t.source_file).file_name().map(|n| n.to_string_lossy().to_string()).unwrap_or_default();
    json!({
        "property": "C03",
        "engine": "simhint",
        "seed": seed,
        "source_file": file_name,
        "source": src,
        "function": t.name,
        "args": s.args.iter().map(|a| a.to_json()).collect::<Vec<_>>(),
        "gas": s.gas,
        "ec_seed": tseed,
        "plan": s.plan,
        "class": f.class,
        "signature": f.signature,
        "detail": f.detail,
    })
}

/// Minimises the fault plan and the arguments while the same violation class persists.
fn minimise(t: &Target, s: &Scenario, class: &str, ec_seed: u64) -> Scenario {
    let fails = |args: &[Val], plan: &[Fault]| -> bool {
        let honest = t.run(args, s.gas, &[], ec_seed, false, 5_000_000).outcome;
        if !matches!(honest, Outcome::Ok { .. }) {
            return false;
        }
        let rep = t.run(args, s.gas, plan, ec_seed, false, 5_000_000);
        matches!(judge(&honest, &rep), Verdict::Violation(m) if class_of(&m) == class)
    };
    let mut cur = s.clone();
    if cur.plan.len() > 1 {
        let p = simcore::ddmin(&cur.plan, |p| !p.is_empty() && fails(&cur.args, p));
        if !p.is_empty() {
            cur.plan = p;
        }
    }
    // Simplify scalar arguments towards small values.
    for i in 0..cur.args.len() {
        if let Val::F(_) = &cur.args[i] {
            for small in [0u32, 1, 2] {
                let mut cand = cur.args.clone();
                cand[i] = Val::F(small.into());
                if cand != cur.args && fails(&cand, &cur.plan) {
                    cur.args = cand;
                    break;
                }
            }
        }
    }
    cur
}

fn run(opts: Opts) -> i32 {
    let t0 = Instant::now();
    let seed = simcore::verif_seed();
    println!("simhint: property=C03 tier={} VERIF_SEED={seed} catalogue={:?}", opts.tier, opts.catalogue);
    let targets = load_targets(&opts.catalogue, &opts.only, opts.workers, if opts.tier == "thorough" { 1000 } else { 320 });
    println!("simhint: {} target functions compiled in {:.1}s", targets.len(), t0.elapsed().as_secs_f64());
    let tier = if opts.tier == "thorough" {
        Tier { input_cap: 48, n_random_inputs: 8, occ_cap: 120, multi_fault_runs: 24, ample_gas: 3_000_000, max_steps_honest: 60_000 }
    } else {
        Tier { input_cap: 16, n_random_inputs: 2, occ_cap: 40, multi_fault_runs: 4, ample_gas: 1_000_000, max_steps_honest: 20_000 }
    };
    let keep_log = opts.log.is_some();
    let mut total = Batch::new();
    let mut round = 0u64;
    let mut rounds_done = 0u64;
    loop {
        let mut units: Vec<(usize, Vec<Val>)> = vec![];
        for (i, t) in targets.iter().enumerate() {
            if round == 0 && let Err(why) = &t.supported {
                total.skipped.push(format!("{}::{}: {why}", t.source_file, t.name));
            }
            for args in inputs_for(t, &tier, seed, round) {
                units.push((i, args));
            }
        }
        let batches = par_map(units.len(), opts.workers, 256, |u| {
            let (i, args) = &units[u];
            attack_input(*i, &targets[*i], args.clone(), &tier, seed, round, keep_log)
        });
        for b in batches {
            total.merge(b);
        }
        rounds_done += 1;
        round += 1;
        if opts.tier != "thorough" || t0.elapsed().as_secs() >= opts.budget_s || !total.findings.is_empty() {
            break;
        }
    }
    if let Some(p) = &opts.log {
        std::fs::write(p, total.log.join("\n") + "\n").unwrap_or_else(|e| harness_error(&format!("log: {e}")));
    }

    // Findings: dedupe by signature, minimise, write replay, confirm in a fresh process.
    let known = KnownFindings::load();
    let mut exit = simcore::EXIT_OK;
    let mut reported = BTreeSet::new();
    let mut n_viol = 0usize;
    let replay_dir = simcore::verif_root().join("replays/C03");
    for f in &total.findings {
        if !reported.insert(f.signature.clone()) {
            continue;
        }
        if let Some(k) = known.lookup("C03", &f.signature) {
            println!("KNOWN-FINDING: property=C03 {} ({})", k.what, k.signature);
            continue;
        }
        let t = &targets[f.scenario.target];
        let ec_seed = f.scenario.ec_seed;
        {
            let honest = t.run(&f.scenario.args, f.scenario.gas, &[], ec_seed, false, 5_000_000).outcome;
            let rep = t.run(&f.scenario.args, f.scenario.gas, &f.scenario.plan, ec_seed, false, 5_000_000);
            if !matches!(judge(&honest, &rep), Verdict::Violation(_)) {
                harness_error(&format!("violation {} did not reproduce in-process (nondeterminism in the harness)", f.signature));
            }
        }
        let min = minimise(t, &f.scenario, &f.class, ec_seed);
        let _ = std::fs::create_dir_all(&replay_dir);
        let path = replay_dir.join(format!("{seed}-{}-{}.json", t.name, hex64(fnv64(f.signature.as_bytes()))));
        let v = replay_json(t, &opts.catalogue, &min, f, seed, ec_seed);
        std::fs::write(&path, serde_json::to_string_pretty(&v).unwrap()).unwrap();
        // Confirm in a fresh process.
        let me = std::env::current_exe().unwrap();
        let st = std::process::Command::new(me).arg("replay").arg(&path).arg("--quiet").status();
        match st {
            Ok(s) if s.code() == Some(1) => {
                println!("VIOLATION property=C03 replay={}", path.display());
                println!("  {} at {} : {}", f.class, f.signature, f.detail);
                n_viol += 1;
                exit = simcore::EXIT_VIOLATION;
            }
            other => harness_error(&format!("replay of {path:?} in a fresh process did not reproduce: {other:?}")),
        }
    }

    // Evidence.
    let wall = t0.elapsed().as_secs_f64();
    let mut ev = Evidence::new("C03", &opts.tier, seed, "fault_enumeration");
    ev.wall_s = wall;
    ev.violations = n_viol;
    ev.set("evaluations", json!(total.evaluations));
    ev.set("distinct_nontrivial", json!(total.distinct.len()));
    ev.set("rule", json!("One evaluation = one complete VM run of (function, input, gas budget) under a fault plan. Single faults are enumerated: every chosen hint occurrence x every applicable strategy x every output cell / algebraic variant (all occurrences when a run has at most occ_cap of them, else first/second/last per hint pc plus a seeded sample). Multi-fault plans (2-3 faults) are seeded. A case is non-trivial when the lie really replaced a fresh hint output cell with a different value; distinct = distinct (libfunc site, hint kind, strategy, variant/output index, verdict) tuples among those."));
    ev.set("exhaustive", json!(false));
    ev.set("samples", json!(total.samples));
    ev.set("honest_reference_runs", json!(total.honest_runs));
    ev.set("rounds", json!(rounds_done));
    ev.set("target_functions", json!(targets.len()));
    {
        let g = GEN_STATS.lock().unwrap();
        ev.set("lie_constructions_that_panicked_and_were_not_injected", json!(prover::STRATEGY_PANICS.load(std::sync::atomic::Ordering::Relaxed)));
        ev.set("generated_instantiations", json!({"accepted_by_compiler": g.0, "rejected_by_compiler": g.1, "refused_or_crashed_after_sierra_generation": GEN_FAILED_LATE.lock().unwrap().clone(), "kinds": ["bounded_int_div_rem ranges", "downcast ranges", "bounded_int_constrain ranges", "composed functions (2-6 hinted operations with a branch, a loop and locals)", "array get / slice / multi-pop over element types of 1-17 cells and popped sizes up to ~40 cells"]}));
    }
    let _ = std::fs::remove_dir_all(gen_dir());
    ev.set("target_functions_unsupported_signature", json!(total.skipped));
    ev.set("runs_per_hour", json!(((total.evaluations + total.honest_runs) as f64 / wall * 3600.0) as u64));
    ev.set("simulated_time", json!({"unit": "VM steps of completed faulted runs", "value": total.vm_steps}));
    ev.set("faults_fired_and_verdicts", total.counters.to_json());
    ev.set("hint_sites_reached", json!(total.sites.iter().collect::<Vec<_>>()));
    ev.set("hint_sites_reached_count", json!(total.sites.len()));
    if let Some(p) = &opts.log {
        ev.set("event_log_fnv64", json!(hex64(fnv64(std::fs::read(p).unwrap_or_default().as_slice()))));
    }
    ev.set("real_vs_stub", json!({
        "real": ["cairo compiler front end to CASM (built from /repo working tree)", "corelib", "cairo-vm", "SierraCasmRunner", "CairoHintProcessor (honest hint code and its exec-scope state)"],
        "simulated": ["the prover's reported hint outputs (fault plan)", "RandomEcPoint randomness (seeded point)"],
    }));
    ev.assumptions = vec![
        "cairo-vm is the trusted judge of an invalid execution".into(),
        "later hints are honest relative to the state a lie produced".into(),
        "Starknet syscall/cheatcode/external hints are not forged (validated by the OS, not the program)".into(),
        "functions whose result type holds a pointer are skipped (listed)".into(),
        "entry code is the runner's testing configuration (segment arena not finalised)".into(),
    ];
    let ev_path = opts.evidence.clone().unwrap_or_else(|| simcore::verif_root().join("evidence/C03.json"));
    ev.write_to(&ev_path);
    println!(
        "simhint: {} faulted runs + {} honest runs in {:.1}s; verdicts rejected={} harmless={} not_injected={} violations={}; sites={} distinct={}",
        total.evaluations,
        total.honest_runs,
        wall,
        total.counters.get("verdict/rejected"),
        total.counters.get("verdict/harmless"),
        total.counters.get("verdict/not_injected"),
        total.counters.get("verdict/VIOLATION"),
        total.sites.len(),
        total.distinct.len()
    );
    exit
}

fn replay(path: &Path, quiet: bool) -> i32 {
    let v: Value = serde_json::from_str(&std::fs::read_to_string(path).unwrap_or_else(|e| harness_error(&format!("{e}"))))
        .unwrap_or_else(|e| harness_error(&format!("bad replay file: {e}")));
    let scratch = simcore::verif_root().join(format!("sim/scratch/c03-replay-{}", std::process::id()));
    std::fs::create_dir_all(&scratch).unwrap();
    let file = scratch.join(v["source_file"].as_str().unwrap_or("replay.cairo"));
    std::fs::write(&file, v["source"].as_str().unwrap_or("")).unwrap();
    let compiled = compile_file(&file);
    let _ = std::fs::remove_dir_all(&scratch);
    let fname = v["function"].as_str().unwrap_or("");
    let progs = compiled.unwrap_or_else(|e| harness_error(&format!("replay source does not compile: {e}")));
    let Some((_, p)) = progs.into_iter().find(|(n, _)| n == fname) else {
        harness_error("function not found in replay source")
    };
    let t = Target::new(fname, v["source_file"].as_str().unwrap_or(""), p).unwrap_or_else(|e| harness_error(&e));
    let args: Vec<Val> = v["args"].as_array().unwrap().iter().map(|a| Val::from_json(a).unwrap()).collect();
    let gas = v["gas"].as_u64().map(|g| g as usize);
    let plan: Vec<Fault> = serde_json::from_value(v["plan"].clone()).unwrap_or_else(|e| harness_error(&format!("plan: {e}")));
    let ec_seed = v["ec_seed"].as_u64().unwrap_or(0);
    let honest = t.run(&args, gas, &[], ec_seed, false, 5_000_000);
    let rep = t.run(&args, gas, &plan, ec_seed, false, 5_000_000);
    let verdict = judge(&honest.outcome, &rep);
    if !quiet {
        println!("honest:   {:?}", honest.outcome);
        println!("with lie: {:?}", rep.outcome);
        for l in &rep.applied {
            println!("lie: {}", lie_json(l, &t.site(l.pc)));
        }
    }
    match verdict {
        Verdict::Violation(m) if class_of(&m) == v["class"].as_str().unwrap_or("") => {
            if !quiet {
                println!("VIOLATION property=C03 replay={}", path.display());
            }
            simcore::EXIT_VIOLATION
        }
        other => {
            if !quiet {
                println!("not reproduced: {other:?}");
            }
            simcore::EXIT_OK
        }
    }
}

fn list(opts: Opts) -> i32 {
    let targets = load_targets(&opts.catalogue, &opts.only, opts.workers, 96);
    for t in &targets {
        let h = t.run(
            &t.params.iter().flat_map(|p| p.boundaries().into_iter().next().unwrap_or_default()).collect::<Vec<_>>(),
            Some(t.initial_required_gas + 1_000_000),
            &[],
            1,
            true,
            1_000_000,
        );
        println!(
            "{}::{} params={:?} supported={:?} hints(first boundary input)={:?}",
            t.source_file,
            t.name,
            t.params.len(),
            t.supported,
            h.log.iter().map(|o| format!("{}/{}", t.site(o.pc), o.kind)).collect::<BTreeSet<_>>()
        );
    }
    0
}

fn main() {
    // The simulated prover's lies make the honest prover's own code panic now and then; those
    // panics are caught and classified, the default hook would only flood stderr.
    if std::env::var("VERIF_PANIC_TRACE").is_ok() {
        std::panic::set_hook(Box::new(|info| {
            eprintln!("PANIC: {info}\n{}", std::backtrace::Backtrace::force_capture());
        }));
    } else {
        std::panic::set_hook(Box::new(|_| {}));
    }
    for v in ["CAIRO_DEBUG_SIERRA_GEN", "CAIRO_DEBUG_GENERATED_CODE", "PRINT_CASM_BYTECODE_OFFSETS", "MAX_STACK_TRACE_DEPTH"] {
        // SAFETY: single-threaded at this point.
        unsafe { std::env::remove_var(v) };
    }
    let args: Vec<String> = std::env::args().collect();
    let cmd = args.get(1).map(|s| s.as_str()).unwrap_or("");
    let mut opts = Opts {
        tier: std::env::var("VERIF_TIER").unwrap_or_else(|_| "quick".into()),
        catalogue: simcore::verif_root().join("workloads/c03"),
        log: None,
        workers: simcore::env_usize("VERIF_WORKERS", std::thread::available_parallelism().map(|n| n.get()).unwrap_or(4)),
        only: None,
        budget_s: simcore::env_usize("VERIF_BUDGET_S", 1500) as u64,
        evidence: None,
    };
    let mut i = 2;
    let mut positional = vec![];
    let mut quiet = false;
    while i < args.len() {
        match args[i].as_str() {
            "--tier" => { opts.tier = args[i + 1].clone(); i += 1; }
            "--catalogue" => { opts.catalogue = PathBuf::from(&args[i + 1]); i += 1; }
            "--log" => { opts.log = Some(PathBuf::from(&args[i + 1])); i += 1; }
            "--workers" => { opts.workers = args[i + 1].parse().unwrap(); i += 1; }
            "--only" => { opts.only = Some(args[i + 1].clone()); i += 1; }
            "--budget-s" => { opts.budget_s = args[i + 1].parse().unwrap(); i += 1; }
            "--evidence" => { opts.evidence = Some(PathBuf::from(&args[i + 1])); i += 1; }
            "--quiet" => quiet = true,
            other => positional.push(other.to_string()),
        }
        i += 1;
    }
    let code = match cmd {
        "run" => run(opts),
        "replay" => replay(Path::new(positional.first().unwrap_or_else(|| harness_error("replay <file>"))), quiet),
        "list" => list(opts),
        _ => harness_error("usage: simhint run|replay|list"),
    };
    std::process::exit(code);
}
