use crate::b::BDrop;
use crate::c::CDrop;
use crate::a::ADrop;
use crate::ty::MyType;

pub struct S {
    pub m: MyType,
}
pub impl SDrop of Drop<S>;

pub fn f() -> felt252 {
    let s = S { m: MyType { v: 3 } };
    s.m.v
}
