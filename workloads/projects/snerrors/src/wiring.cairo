#[starknet::contract]
mod wired {
    use super::super::part::tally_part;

    // Neither the storage member nor the event variant exist: two plugin errors with an inner span.
    component!(path: tally_part, storage: missing_store, event: MissingEvent);

    #[storage]
    struct Storage {
        #[substorage(v0)]
        tally: tally_part::Storage,
        total: u64,
    }

    #[event]
    #[derive(Drop, starknet::Event)]
    enum Event {
        TallyEvent: tally_part::Event,
    }
}

#[starknet::contract]
mod badargs {
    use super::super::part::tally_part;

    component!(path: tally_part, storage: a::b, event: 3 + 4);

    #[storage]
    struct Storage {}
}
