#[starknet::component]
pub mod tally_part {
    use starknet::storage::{StoragePointerReadAccess, StoragePointerWriteAccess};

    #[storage]
    pub struct Storage {
        pub count: u32,
    }

    #[event]
    #[derive(Drop, starknet::Event)]
    pub enum Event {
        Ticked: Ticked,
    }

    #[derive(Drop, starknet::Event)]
    pub struct Ticked {
        pub count: u32,
    }

    #[generate_trait]
    pub impl TallyInternal<TContractState, +HasComponent<TContractState>> of TallyInternalTrait<TContractState> {
        fn tick(ref self: ComponentState<TContractState>) {
            let count = self.count.read() + 1;
            self.count.write(count);
            self.emit(Ticked { count });
        }
    }
}
