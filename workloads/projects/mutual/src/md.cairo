pub fn entry(n: felt252) -> felt252 {
    super::ma::ping(n) + super::mb::pong(n)
}

pub fn tri_c(n: u32) -> felt252 {
    if n == 0 {
        return 30;
    }
    super::mc::tri_a(n - 1) + 3
}
