pub impl A of crate::t::Foo<felt252> {
    fn foo(x: felt252) -> felt252 {
        x + 1
    }
}
