#[inline(always)]
pub fn scale(x: u64, per_hundred: u64) -> u64 {
    x * per_hundred / 100
}

pub fn unused_helper(x: u64) -> u64 {
    let shadow = x;
    let shadow = shadow + 1;
    shadow
}
