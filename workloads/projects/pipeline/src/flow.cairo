pub fn collatz(mut n: u32) -> u32 {
    let mut steps = 0;
    loop {
        if n == 1 {
            break;
        }
        n = if n % 2 == 0 {
            n / 2
        } else {
            3 * n + 1
        };
        steps += 1;
    }
    steps
}

pub fn apply_twice(x: u32, k: u32) -> u32 {
    let add = |v: u32| v + k;
    let double = |v: u32| v * 2;
    double(add(add(x)))
}

pub fn classify(x: Option<u32>, y: Result<u32, felt252>) -> u32 {
    match (x, y) {
        (Some(a), Ok(b)) => a + b,
        (Some(a), Err(_)) => a,
        (None, Ok(b)) => b,
        (None, Err(_)) => 0,
    }
}

pub fn nested_loops(n: u32) -> u32 {
    let mut total = 0;
    for i in 0..n {
        let mut j = 0;
        while j != i {
            total += j;
            j += 1;
        }
    }
    total
}
