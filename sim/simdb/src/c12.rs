//! C12 — compilation is deterministic on any schedule and after any query history.
//!
//! Level 1 (plain salsa build): the H1 executor runs the tasks of every parallel batch one at a
//! time in a PRNG order; histories of unrelated queries precede the compile; the H2 hash seed is
//! drawn per run. Level 2 (salsa built with its `shuttle` feature): the H1 executor is a simulated
//! worker pool of shuttle threads, and shuttle's seeded scheduler decides every interleaving at
//! salsa's synchronisation points.

use std::collections::{BTreeMap, BTreeSet};
use std::panic::AssertUnwindSafe;
use std::path::{Path, PathBuf};
use std::time::Instant;

use cairo_lang_compiler::diagnostics::DiagnosticsReporter;
use cairo_lang_compiler::{CompilerConfig, compile_prepared_db_program_artifact};
use cairo_lang_defs::db::DefsGroup;
use cairo_lang_filesystem::db::FilesGroup;
use cairo_lang_filesystem::ids::CrateInput;
use cairo_lang_lowering::db::LoweringGroup;
use cairo_lang_semantic::db::SemanticGroup;
use cairo_lang_sierra_generator::canonical_id_replacer::CanonicalReplacer;
use cairo_lang_sierra_generator::db::SierraGenGroup;
use cairo_lang_sierra_generator::replace_ids::SierraIdReplacer;
use cairo_lang_utils::verif_par;
use serde::{Deserialize, Serialize};
use serde_json::{Value, json};
use simcore::{Counters, Evidence, KnownFindings, Rng, fnv64, harness_error, hex64, mix, par_map};

#[cfg(not(feature = "shuttle"))]
use crate::dbx::SeqExecutor;
use crate::dbx::{self, Sut};

#[derive(Clone, Debug, Serialize, Deserialize, PartialEq)]
#[serde(tag = "op")]
pub enum PrefixOp {
    /// Semantic / lowering / syntax diagnostics or Sierra of one module or function of the project.
    Partial { kind: u8, pick: usize, snapshot: bool },
    /// Diagnostics of one corelib module first.
    CorelibModule { pick: usize, lowering: bool },
    /// Sierra program of a subset of the project's functions.
    CompileSubset { picks: Vec<usize> },
    /// An edit followed by its exact revert, with a query in between: contents end up identical,
    /// interned ids and tracked-struct ids do not.
    EditRevert { pick: usize, variant: u8 },
    FullDiagnostics,
    Locations,
    /// Reach one submodule of the crate root through `module_submodules_ids` only (without the
    /// crate-wide module walk, which interns every module's items in source order first) and
    /// analyse it: 0 semantic diagnostics, 1 lowering diagnostics, 2 Sierra of its first function.
    ViaSubmodules { pick: usize, kind: u8 },
}

#[derive(Clone, Debug, Serialize, Deserialize, PartialEq)]
pub struct Plan {
    pub hash_seed: u64,
    /// Simulated worker count (1 = no parallel warm-up).
    pub workers: usize,
    /// Level 1: 0 = PRNG permutation of each batch, 1 = reverse, 2 = in order.
    pub task_order: u8,
    pub exec_seed: u64,
    pub prefix: Vec<PrefixOp>,
    /// Level 2 only: shuttle scheduler ("random" | "pct") and its seed.
    #[serde(default)]
    pub scheduler: String,
    #[serde(default)]
    pub sched_seed: u64,
    #[serde(default)]
    pub pct_depth: usize,
    /// Level 2 only: about one injected preemption per this many allocations of a pool task
    /// (0 = tasks lose the processor only at salsa's synchronisation points).
    #[serde(default)]
    pub preempt_every: u64,
}

impl Plan {
    pub fn reference() -> Plan {
        Plan { hash_seed: 0, workers: 1, task_order: 2, exec_seed: 0, prefix: vec![], scheduler: "random".into(), sched_seed: 0, pct_depth: 0, preempt_every: 0 }
    }
}

#[derive(Clone, Debug)]
pub struct ProjectRef {
    pub name: String,
    pub root: PathBuf,
    pub starknet: bool,
}

pub type Observables = BTreeMap<String, String>;

#[derive(Serialize, Deserialize)]
pub struct RunOut {
    pub obs: Observables,
    pub raw_sig: u64,
    pub attr_sig: u64,
    pub tasks_with_queries: usize,
    pub tasks_run: u64,
    pub queries_executed: u64,
    pub sched_steps: u64,
}

/// Canonical text of the annotations: object keys sorted, and the maps that are keyed by raw
/// (interning-order dependent) Sierra type / function ids re-keyed by the id's debug name. Raw ids
/// legitimately differ between schedules; the property speaks of canonical or debug-name ids.
fn normalise_annotations(program: &cairo_lang_sierra::program::Program, ann: &cairo_lang_sierra::debug_info::Annotations) -> String {
    let mut names: BTreeMap<String, String> = BTreeMap::new();
    for t in &program.type_declarations {
        names.insert(format!("T{}", t.id.id), t.id.debug_name.as_ref().map(|s| s.to_string()).unwrap_or_else(|| "?".into()));
    }
    for f in &program.funcs {
        names.insert(format!("F{}", f.id.id), f.id.debug_name.as_ref().map(|s| s.to_string()).unwrap_or_else(|| "?".into()));
    }
    fn canon(v: &Value, rekey: Option<(&BTreeMap<String, String>, &str)>, out: &mut String) {
        match v {
            Value::Object(m) => {
                let mut entries: Vec<(String, &Value)> = m
                    .iter()
                    .map(|(k, v)| {
                        let k2 = match rekey {
                            Some((names, pre)) => names.get(&format!("{pre}{k}")).cloned().unwrap_or_else(|| format!("<unknown id {k}>")),
                            None => k.clone(),
                        };
                        (k2, v)
                    })
                    .collect();
                entries.sort_by(|a, b| a.0.cmp(&b.0));
                out.push('{');
                for (k, v) in entries {
                    out.push_str(&format!("{k:?}:"));
                    canon(v, None, out);
                    out.push(',');
                }
                out.push('}');
            }
            Value::Array(a) => {
                out.push('[');
                for x in a {
                    canon(x, None, out);
                    out.push(',');
                }
                out.push(']');
            }
            other => out.push_str(&other.to_string()),
        }
    }
    let mut out = String::new();
    let mut keys: Vec<&String> = ann.keys().collect();
    keys.sort();
    for k in keys {
        let v = &ann[k];
        out.push_str(&format!("{k}\n"));
        if k.ends_with("cairo-debugger/user-types") {
            for part in ["enums", "structs"] {
                out.push_str(part);
                canon(&v[part], Some((&names, "T")), &mut out);
                out.push('\n');
            }
        } else if k.ends_with("cairo-debugger") {
            out.push_str("functions_info");
            canon(&v["functions_info"], Some((&names, "F")), &mut out);
            out.push('\n');
        } else {
            canon(v, None, &mut out);
            out.push('\n');
        }
    }
    out
}

fn artifact_observables(sut: &Sut, out: &mut Observables) {
    let db = &sut.db;
    let main = &sut.main;
    let mut diags = String::new();
    let cfg = CompilerConfig {
        replace_ids: true,
        add_statements_functions: true,
        add_statements_code_locations: true,
        add_functions_debug_info: false,
        add_type_names: true,
        diagnostics_reporter: DiagnosticsReporter::write_to_string(&mut diags).with_crates(main).allow_warnings(),
    };
    let ids = CrateInput::into_crate_ids(db, main.clone());
    let r = compile_prepared_db_program_artifact(db, ids, cfg);
    match r {
        Ok(a) => {
            out.insert("sierra_debug_names".into(), a.program.to_string());
            if let Some(d) = &a.debug_info {
                out.insert("annotations".into(), normalise_annotations(&a.program, &d.annotations));
                out.insert("executables".into(), format!("{:?}", d.executables.len()));
            }
            // CASM of the program (gas and ap-change solving included), computed under the run's
            // hash seed: a pure function of the Sierra program unless something iterates a hash map.
            let casm = std::panic::catch_unwind(AssertUnwindSafe(|| {
                match cairo_lang_runnable_utils::builder::RunnableBuilder::new(a.program.clone(), Some(Default::default())) {
                    Ok(b) => b.casm_program().to_string(),
                    Err(e) => format!("ERR {e}"),
                }
            }));
            out.insert("registry".into(), match casm {
                Ok(s) => s,
                Err(p) => format!("PANIC {}", dbx::panic_message(p)),
            });
        }
        Err(e) => {
            out.insert("sierra_debug_names".into(), format!("ERR {e}"));
        }
    }
    out.insert("artifact_diagnostics".into(), diags.replace(&sut.root.to_string_lossy().to_string(), "<ROOT>"));
    // The functions-debug-info annotations are extracted in parallel too; on this tree the
    // extraction panics for some functions (a debug_assert'ed invariant that does not hold), which
    // is deterministic and recorded as such.
    // Level 2 leaves it out: a panic inside a shuttle task cannot be contained (shuttle's own
    // bookkeeping breaks while the task unwinds through salsa's destructors).
    if cfg!(feature = "shuttle") {
        return;
    }
    let fdi = std::panic::catch_unwind(AssertUnwindSafe(|| {
        let mut d2 = String::new();
        let cfg = CompilerConfig {
            replace_ids: true,
            add_functions_debug_info: true,
            diagnostics_reporter: DiagnosticsReporter::write_to_string(&mut d2).with_crates(main).allow_warnings(),
            ..Default::default()
        };
        let ids = CrateInput::into_crate_ids(db, main.clone());
        match compile_prepared_db_program_artifact(db, ids, cfg) {
            Ok(a) => a.debug_info.as_ref().map(|d| normalise_annotations(&a.program, &d.annotations)).unwrap_or_default(),
            Err(e) => format!("ERR {e}"),
        }
    }));
    out.insert("annotations_functions_debug_info".into(), match fdi {
        Ok(s) => s,
        Err(p) => format!("PANIC {}", dbx::panic_message(p)),
    });
}

fn canonical_observable(sut: &Sut, out: &mut Observables) -> u64 {
    let db = &sut.db;
    let ids = CrateInput::into_crate_ids(db, sut.main.clone());
    match db.get_sierra_program(ids) {
        Ok(p) => {
            let raw = p.program.to_string();
            let canon = CanonicalReplacer::from_program(&p.program).apply(&p.program);
            out.insert("sierra_canonical_ids".into(), canon.to_string());
            fnv64(raw.as_bytes())
        }
        Err(_) => {
            out.insert("sierra_canonical_ids".into(), "ERR".into());
            0
        }
    }
}

fn starknet_observables(sut: &Sut, out: &mut Observables) {
    let db = &sut.db;
    let ids = CrateInput::into_crate_ids(db, sut.main.clone());
    let contracts = cairo_lang_starknet::contract::find_contracts(db, &ids);
    if contracts.is_empty() {
        return;
    }
    let mut diags = String::new();
    let cfg = CompilerConfig {
        replace_ids: true,
        diagnostics_reporter: DiagnosticsReporter::write_to_string(&mut diags).with_crates(&sut.main).allow_warnings(),
        ..Default::default()
    };
    let refs: Vec<_> = contracts.iter().collect();
    match cairo_lang_starknet::compile::compile_prepared_db(db, &refs, cfg) {
        Ok(classes) => {
            for (i, c) in classes.iter().enumerate() {
                out.insert(format!("contract_class_{i}"), serde_json::to_string(c).unwrap_or_else(|e| format!("ERR {e}")));
                // The compiled (CASM) class, as `starknet-sierra-compile` produces it.
                let casm = std::panic::catch_unwind(AssertUnwindSafe(|| {
                    let extracted = c.extract_sierra_program(false).map_err(|e| format!("{e:?}"))?;
                    cairo_lang_starknet_classes::casm_contract_class::CasmContractClass::from_contract_class(c.clone(), extracted, false, usize::MAX)
                        .map(|cc| serde_json::to_string(&cc).unwrap_or_else(|e| format!("ERR {e}")))
                        .map_err(|e| format!("{e}"))
                }));
                out.insert(format!("contract_class_{i}_casm"), match casm {
                    Ok(Ok(s)) => s,
                    Ok(Err(e)) => format!("ERR {e}"),
                    Err(p) => format!("PANIC {}", dbx::panic_message(p)),
                });
            }
        }
        Err(e) => {
            out.insert("contract_classes".into(), format!("ERR {e}"));
        }
    }
}

fn run_prefix(sut: &mut Sut, prefix: &[PrefixOp], counters: &mut Counters) {
    for op in prefix {
        let r = std::panic::catch_unwind(AssertUnwindSafe(|| match op {
            PrefixOp::Partial { kind, pick, snapshot } => {
                if *snapshot {
                    let snap = sut.db.snapshot();
                    dbx::partial_query(&snap, &sut.main, *kind, *pick);
                } else {
                    dbx::partial_query(&sut.db, &sut.main, *kind, *pick);
                }
            }
            PrefixOp::CorelibModule { pick, lowering } => {
                let db = &sut.db;
                let core = cairo_lang_filesystem::ids::CrateId::core(db);
                let modules = db.crate_modules(core);
                if !modules.is_empty() {
                    let m = modules[pick % modules.len()];
                    let _ = db.module_semantic_diagnostics(m);
                    if *lowering {
                        let _ = db.module_lowering_diagnostics(m);
                    }
                }
            }
            PrefixOp::CompileSubset { picks } => {
                let db = &sut.db;
                let ids = CrateInput::into_crate_ids(db, sut.main.clone());
                if let Ok(all) = cairo_lang_sierra_generator::program_generator::find_all_free_function_ids(db, ids) {
                    if !all.is_empty() {
                        let subset: Vec<_> = picks.iter().map(|p| all[p % all.len()]).collect();
                        let _ = cairo_lang_compiler::get_sierra_program_for_functions(db, subset);
                    }
                }
            }
            PrefixOp::EditRevert { pick, variant } => {
                // Pick a file of the main crate, change it, query, put the same text back.
                let (rel, content) = {
                    let db = &sut.db;
                    let ids = CrateInput::into_crate_ids(db, sut.main.clone());
                    let Some(c) = ids.first().copied() else { return };
                    let modules = db.crate_modules(c);
                    let mut files = vec![];
                    for m in modules.iter() {
                        if let Ok(fs) = db.module_files(*m) {
                            for f in fs.iter().copied() {
                                if let cairo_lang_filesystem::ids::FileLongId::OnDisk(p) = f.long(db) {
                                    if let (Ok(rel), Some(c)) = (p.strip_prefix(&sut.root), db.file_content(f)) {
                                        files.push((rel.to_string_lossy().to_string(), c.to_string()));
                                    }
                                }
                            }
                        }
                    }
                    if files.is_empty() {
                        return;
                    }
                    files.sort();
                    files.dedup();
                    files[pick % files.len()].clone()
                };
                if std::env::var("VERIF_DUMP_DIR").is_ok() {
                    eprintln!("edit_revert file={rel} variant={variant}");
                }
                let edited = match variant % 3 {
                    0 => format!("// edited\n{content}"),
                    1 => format!("{content}\nfn verif_added_item(x: u8) -> u8 {{ x }}\n"),
                    _ => content.replacen("fn ", "fn verif_renamed_", 1),
                };
                sut.set_override(&rel, Some(edited));
                dbx::partial_query(&sut.db, &sut.main, 5, *pick);
                if variant % 2 == 0 {
                    sut.set_override(&rel, Some(content));
                } else {
                    sut.set_override(&rel, None);
                }
            }
            PrefixOp::FullDiagnostics => {
                let _ = dbx::diagnostics_of(&sut.db, &sut.main);
            }
            PrefixOp::ViaSubmodules { pick, kind } => {
                let db = &sut.db;
                let ids = CrateInput::into_crate_ids(db, sut.main.clone());
                let Some(c) = ids.first().copied() else { return };
                let Ok(subs) = db.module_submodules_ids(cairo_lang_defs::ids::ModuleId::CrateRoot(c)) else { return };
                if subs.is_empty() {
                    return;
                }
                let m = cairo_lang_defs::ids::ModuleId::Submodule(subs[pick % subs.len()]);
                match kind % 3 {
                    0 => {
                        let _ = db.module_semantic_diagnostics(m);
                    }
                    1 => {
                        let _ = db.module_lowering_diagnostics(m);
                    }
                    _ => {
                        if let Ok(fs) = db.module_free_functions_ids(m) {
                            if let Some(f) = fs.first() {
                                if let Some(cf) = cairo_lang_lowering::ids::ConcreteFunctionWithBodyId::from_no_generics_free(db, *f) {
                                    let _ = db.function_with_body_sierra(cf);
                                }
                            }
                        }
                    }
                }
            }
            PrefixOp::Locations => {
                let _ = dbx::locations_of(&sut.db, &sut.main);
            }
        }));
        counters.inc(&format!(
            "prefix/{}",
            match op {
                PrefixOp::Partial { snapshot: true, .. } => "partial_on_snapshot",
                PrefixOp::Partial { .. } => "partial",
                PrefixOp::CorelibModule { .. } => "corelib_module_first",
                PrefixOp::CompileSubset { .. } => "compile_other_function_subset",
                PrefixOp::EditRevert { .. } => "edit_then_exact_revert",
                PrefixOp::FullDiagnostics => "full_diagnostics",
                PrefixOp::Locations => "locations",
                PrefixOp::ViaSubmodules { .. } => "submodule_first_without_crate_walk",
            }
        ));
        if r.is_err() {
            counters.inc("prefix/panicked");
        }
    }
}

/// The body of one simulated run (both levels): build the database under the plan's hash seed,
/// run the history prefix, then compile through the real entry points.
fn run_body(project: &ProjectRef, plan: &Plan, counters: &mut Counters, install_executor: impl FnOnce() -> Box<dyn FnOnce() -> u64>) -> RunOut {
    cairo_lang_utils::verif_hash::set_hash_seed(plan.hash_seed);
    dbx::reset_attribution();
    let q0 = dbx::exec_count();
    let mut obs = Observables::new();
    let mut raw_sig = 0;
    let finish = install_executor();
    let r = std::panic::catch_unwind(AssertUnwindSafe(|| {
        let mut sut = Sut::new(&project.root, project.starknet).unwrap_or_else(|e| panic!("setup: {e}"));
        run_prefix(&mut sut, &plan.prefix, counters);
        artifact_observables(&sut, &mut obs);
        raw_sig = canonical_observable(&sut, &mut obs);
        if project.starknet {
            starknet_observables(&sut, &mut obs);
        }
        let (d, _) = dbx::diagnostics_of(&sut.db, &sut.main);
        obs.insert("diagnostics".into(), d.replace(&sut.root.to_string_lossy().to_string(), "<ROOT>"));
    }));
    let tasks_run = finish();
    verif_par::set_executor(None);
    cairo_lang_utils::verif_hash::set_hash_seed(0);
    if let Err(p) = r {
        obs.insert("PANIC".into(), dbx::panic_message(p));
    }
    let (attr_sig, tasks_with_queries) = dbx::attribution();
    RunOut { obs, raw_sig, attr_sig, tasks_with_queries, tasks_run, queries_executed: dbx::exec_count() - q0, sched_steps: 0 }
}

// ---------------------------------------------------------------------------------------------
// Level 1
// ---------------------------------------------------------------------------------------------

#[cfg(not(feature = "shuttle"))]
fn execute_inproc(project: &ProjectRef, plan: &Plan, counters: &mut Counters) -> RunOut {
    let plan2 = plan.clone();
    run_body(project, plan, counters, move || {
        if plan2.workers > 1 {
            let ex = SeqExecutor::new(plan2.exec_seed, plan2.workers, plan2.task_order);
            verif_par::set_executor(Some(ex.clone()));
            Box::new(move || ex.tasks_run.get())
        } else {
            verif_par::set_executor(None);
            Box::new(|| 0)
        }
    })
}

// ---------------------------------------------------------------------------------------------
// Level 2: shuttle
// ---------------------------------------------------------------------------------------------

#[cfg(feature = "shuttle")]
mod pool {
    use std::collections::VecDeque;
    use std::sync::atomic::{AtomicU64, Ordering};

    use cairo_lang_utils::verif_par::{Executor, Task};

    /// A simulated worker pool: each batch is served by up to `workers` shuttle threads pulling
    /// tasks from a shared queue (nested batches get two). Shuttle decides who runs at every
    /// synchronisation point inside salsa.
    pub struct ShuttlePool {
        pub workers: usize,
        pub tasks_run: AtomicU64,
        pub next_task: AtomicU64,
        pub depth: AtomicU64,
    }
    impl Executor for ShuttlePool {
        fn run_scoped<'a>(&self, tasks: Vec<Task<'a>>) {
            let nested = self.depth.fetch_add(1, Ordering::SeqCst) > 0;
            let n = if nested { 2.min(tasks.len()) } else { self.workers.min(tasks.len()) };
            self.tasks_run.fetch_add(tasks.len() as u64, Ordering::SeqCst);
            let queue = shuttle::sync::Mutex::new(tasks.into_iter().collect::<VecDeque<_>>());
            let queue = &queue;
            // Like rayon, a panicking task does not take the pool down: the panic is carried to
            // the caller of the batch (shuttle itself would abort the whole execution).
            let panicked: std::sync::Mutex<Option<Box<dyn std::any::Any + Send>>> = std::sync::Mutex::new(None);
            let panicked = &panicked;
            shuttle::thread::scope(|s| {
                for _ in 0..n {
                    s.spawn(move || {
                        loop {
                            let t = queue.lock().unwrap().pop_front();
                            let Some(t) = t else { break };
                            let id = self.next_task.fetch_add(1, Ordering::SeqCst);
                            shuttle::thread::sleep(std::time::Duration::from_millis(0));
                            let _restore = crate::dbx::TaskGuard(crate::dbx::set_current_task(id));
                            crate::preempt::PROGRESS.fetch_add(1, Ordering::Relaxed);
                            let was = crate::preempt::enter_task();
                            let r = std::panic::catch_unwind(std::panic::AssertUnwindSafe(t));
                            crate::preempt::leave_task(was);
                            if let Err(p) = r {
                                panicked.lock().unwrap().get_or_insert(p);
                            }
                        }
                    });
                }
            });
            self.depth.fetch_sub(1, Ordering::SeqCst);
            if let Some(p) = panicked.lock().unwrap().take() {
                std::panic::resume_unwind(p);
            }
        }
        fn num_threads(&self) -> usize {
            self.workers
        }
    }
}

/// Every run (both levels) is executed in a child process (`simdb c12-exec`): runs then share
/// nothing, not even process-global state of the code under test (a `static` cache or lock in the
/// compiler would otherwise couple simulations that the harness happens to run side by side, and
/// such a coupling does not replay). For level 2 it is also a necessity: salsa keeps process-global
/// statics built on its (there: shuttle's) sync primitives, so two shuttle executions must never
/// run concurrently in one process.
pub fn execute(project: &ProjectRef, plan: &Plan, counters: &mut Counters) -> RunOut {
    use std::io::Write;
    let me = std::env::current_exe().unwrap();
    let mut child = std::process::Command::new(me)
        .arg("c12-exec")
        .stdin(std::process::Stdio::piped())
        .stdout(std::process::Stdio::piped())
        .stderr(std::process::Stdio::piped())
        .spawn()
        .unwrap_or_else(|e| harness_error(&format!("spawn c12-exec: {e}")));
    let req = json!({"name": project.name, "root": project.root, "starknet": project.starknet, "plan": plan});
    child.stdin.take().unwrap().write_all(req.to_string().as_bytes()).unwrap();
    // Watchdog: a run that does not come back (a livelock under some schedule) is an observable
    // of its own, not a hang of the harness.
    let t0 = Instant::now();
    let limit = std::time::Duration::from_secs(simcore::env_usize("VERIF_RUN_TIMEOUT_S", 900) as u64);
    let mut timed_out = false;
    let mut stdout = child.stdout.take().unwrap();
    let mut stderr = child.stderr.take().unwrap();
    let out_reader = std::thread::spawn(move || {
        let mut s = Vec::new();
        let _ = std::io::Read::read_to_end(&mut stdout, &mut s);
        s
    });
    let err_reader = std::thread::spawn(move || {
        let mut s = Vec::new();
        let _ = std::io::Read::read_to_end(&mut stderr, &mut s);
        s
    });
    let status = loop {
        match child.try_wait() {
            Ok(Some(st)) => break st,
            Ok(None) => {
                if t0.elapsed() > limit {
                    let _ = child.kill();
                    timed_out = true;
                    break child.wait().unwrap_or_else(|e| harness_error(&format!("c12-exec: {e}")));
                }
                std::thread::sleep(std::time::Duration::from_millis(20));
            }
            Err(e) => harness_error(&format!("c12-exec: {e}")),
        }
    };
    let out = std::process::Output { status, stdout: out_reader.join().unwrap_or_default(), stderr: err_reader.join().unwrap_or_default() };
    // A child killed from outside (SIGKILL that is not our own watchdog: the kernel's OOM killer on
    // a loaded machine) says nothing about the compiler. Retry; if it keeps happening the harness
    // cannot decide anything and says so (exit 2) instead of reporting a "no output" observable.
    {
        use std::os::unix::process::ExitStatusExt;
        if !timed_out && out.status.signal() == Some(9) {
            counters.inc("child_killed_externally_retried");
            static KILLS: std::sync::atomic::AtomicUsize = std::sync::atomic::AtomicUsize::new(0);
            if KILLS.fetch_add(1, std::sync::atomic::Ordering::SeqCst) >= 8 {
                harness_error("c12-exec children keep being killed by SIGKILL (out of memory?)");
            }
            std::thread::sleep(std::time::Duration::from_secs(2));
            return execute(project, plan, counters);
        }
    }
    if out.status.code() == Some(86) {
        // The injected preemption hit a task that held a blocking lock shuttle does not control:
        // inconclusive, not an observation about the compiler. Re-run the plan without the seam.
        counters.inc("level2_preemption_deadlock_inconclusive");
        let mut p2 = plan.clone();
        p2.preempt_every = 0;
        return execute(project, &p2, counters);
    }
    // A preempted run that ends without output (a panic such as "RefCell already borrowed": some
    // std thread-local of a library is shared by all simulated tasks of the one OS thread, which a
    // preemption in the middle of its update exposes) says nothing about the compiler: fall back
    // to the same plan without the seam.
    if plan.preempt_every != 0 && !timed_out {
        let text = String::from_utf8_lossy(&out.stdout);
        let no_output = match text.lines().rev().find(|l| l.starts_with("{\"c12-exec\"")) {
            None => true,
            Some(l) => l.contains("\"PANIC\":"),
        };
        if no_output {
            counters.inc("level2_preempted_run_without_output_inconclusive");
            let mut p2 = plan.clone();
            p2.preempt_every = 0;
            return execute(project, &p2, counters);
        }
    }
    if timed_out {
        let mut obs = Observables::new();
        obs.insert("PANIC".into(), format!("no result within {}s (run killed)", limit.as_secs()));
        return RunOut { obs, raw_sig: 0, attr_sig: 0, tasks_with_queries: 0, tasks_run: 0, queries_executed: 0, sched_steps: 0 };
    }
    let text = String::from_utf8_lossy(&out.stdout);
    let Some(line) = text.lines().rev().find(|l| l.starts_with("{\"c12-exec\"")) else {
        // The child died without a result: a panic inside a simulated task (shuttle cannot contain
        // those) or a crash. That is an observable of the run ("no output"), not a harness error.
        let p = simcore::verif_root().join(format!("sim/scratch/c12-exec-failed-{}.json", std::process::id()));
        let _ = std::fs::create_dir_all(p.parent().unwrap());
        let _ = std::fs::write(&p, req.to_string());
        let err = String::from_utf8_lossy(&out.stderr);
        let msg = err.lines().rev().find(|l| l.contains("panicked at") || l.contains("PANIC")).unwrap_or("").chars().take(160).collect::<String>();
        let mut obs = Observables::new();
        obs.insert("PANIC".into(), format!("run ended without a result (status {:?}) {msg}", out.status.code()));
        return RunOut { obs, raw_sig: 0, attr_sig: 0, tasks_with_queries: 0, tasks_run: 0, queries_executed: 0, sched_steps: 0 };
    };
    let v: Value = serde_json::from_str(line).unwrap_or_else(|e| harness_error(&format!("c12-exec output: {e}")));
    let c: BTreeMap<String, u64> = serde_json::from_value(v["counters"].clone()).unwrap_or_default();
    counters.merge(&Counters(c));
    serde_json::from_value(v["c12-exec"].clone()).unwrap_or_else(|e| harness_error(&format!("c12-exec result: {e}")))
}

/// Child-process entry point: one execution, request on stdin, result on stdout.
pub fn exec_child() -> i32 {
    let mut s = String::new();
    std::io::Read::read_to_string(&mut std::io::stdin(), &mut s).unwrap();
    let v: Value = serde_json::from_str(&s).unwrap_or_else(|e| harness_error(&format!("c12-exec request: {e}")));
    let project = ProjectRef { name: v["name"].as_str().unwrap_or("").into(), root: PathBuf::from(v["root"].as_str().unwrap_or("")), starknet: v["starknet"].as_bool().unwrap_or(false) };
    let plan: Plan = serde_json::from_value(v["plan"].clone()).unwrap_or_else(|e| harness_error(&format!("plan: {e}")));
    let mut c = Counters::default();
    let out = execute_inproc(&project, &plan, &mut c);
    println!("{}", json!({"c12-exec": out, "counters": c.0}));
    0
}

#[cfg(feature = "shuttle")]
fn execute_inproc(project: &ProjectRef, plan: &Plan, counters: &mut Counters) -> RunOut {
    use std::sync::{Arc, Mutex};
    let mut cfg = shuttle::Config::new();
    cfg.stack_size = 512 << 20;
    cfg.max_steps = shuttle::MaxSteps::None;
    cfg.silence_warnings = true;
    cfg.failure_persistence = shuttle::FailurePersistence::None;
    let slot: Arc<Mutex<Option<(RunOut, Counters)>>> = Arc::new(Mutex::new(None));
    let slot2 = slot.clone();
    let project = project.clone();
    let plan = plan.clone();
    let plan_outer = plan.clone();
    crate::preempt::configure(plan.preempt_every, plan.sched_seed);
    if plan.preempt_every != 0 {
        crate::preempt::start_deadlock_watchdog(25);
    }
    let body = move || {
        let mut c = Counters::default();
        let plan2 = plan.clone();
        let out = run_body(&project, &plan, &mut c, move || {
            if plan2.workers > 1 {
                let ex = Arc::new(pool::ShuttlePool {
                    workers: plan2.workers,
                    tasks_run: Default::default(),
                    next_task: std::sync::atomic::AtomicU64::new(1),
                    depth: Default::default(),
                });
                verif_par::set_executor(Some(ex.clone()));
                Box::new(move || ex.tasks_run.load(std::sync::atomic::Ordering::SeqCst))
            } else {
                verif_par::set_executor(None);
                Box::new(|| 0)
            }
        });
        *slot2.lock().unwrap() = Some((out, c));
    };
    let r = std::panic::catch_unwind(AssertUnwindSafe(|| {
        if plan_outer.scheduler == "pct" {
            shuttle::Runner::new(shuttle::scheduler::PctScheduler::new_from_seed(plan_outer.sched_seed, plan_outer.pct_depth.max(1), 1), cfg).run(body);
        } else {
            shuttle::Runner::new(shuttle::scheduler::RandomScheduler::new_from_seed(plan_outer.sched_seed, 1), cfg).run(body);
        }
    }));
    verif_par::set_executor(None);
    crate::preempt::disarm();
    counters.add("level2_injected_preemptions", crate::preempt::PREEMPTIONS.load(std::sync::atomic::Ordering::Relaxed));
    match (r, slot.lock().unwrap().take()) {
        (Ok(_), Some((out, c))) => {
            counters.merge(&c);
            out
        }
        (Err(p), _) => {
            let mut obs = Observables::new();
            obs.insert("PANIC".into(), format!("scheduler-level: {}", dbx::panic_message(p)));
            RunOut { obs, raw_sig: 0, attr_sig: 0, tasks_with_queries: 0, tasks_run: 0, queries_executed: 0, sched_steps: 0 }
        }
        (Ok(_), None) => harness_error("shuttle run produced no output"),
    }
}

// ---------------------------------------------------------------------------------------------
// Scenario generation, oracle, reporting
// ---------------------------------------------------------------------------------------------

pub fn generate_plan(seed: u64, level2: bool) -> Plan {
    let mut rng = Rng::stream(seed, "c12-plan");
    let workers = if level2 { [2, 3, 4, 8][rng.below(4)] } else { [1, 2, 3, 4, 8, 16][rng.below(6)] };
    let n_prefix = if rng.chance(1, 4) { 0 } else { rng.below(if level2 { 6 } else { 24 }) };
    let mut prefix = vec![];
    for _ in 0..n_prefix {
        prefix.push(match rng.below(14) {
            12 | 13 => PrefixOp::ViaSubmodules { pick: rng.below(64), kind: rng.below(3) as u8 },
            0..=4 => PrefixOp::Partial { kind: rng.below(5) as u8, pick: rng.below(512), snapshot: rng.chance(1, 3) },
            5 => PrefixOp::CorelibModule { pick: rng.below(512), lowering: rng.chance(1, 3) },
            6 | 7 => PrefixOp::CompileSubset { picks: (0..1 + rng.below(4)).map(|_| rng.below(512)).collect() },
            8 | 9 => PrefixOp::EditRevert { pick: rng.below(64), variant: rng.below(6) as u8 },
            10 => PrefixOp::FullDiagnostics,
            _ => PrefixOp::Locations,
        });
    }
    Plan {
        hash_seed: rng.next_u64(),
        workers,
        task_order: [0, 0, 0, 1, 2][rng.below(5)],
        exec_seed: rng.next_u64(),
        prefix,
        scheduler: if rng.chance(1, 3) { "pct".into() } else { "random".into() },
        sched_seed: rng.next_u64(),
        pct_depth: 2 + rng.below(4),
        preempt_every: if level2 && rng.chance(2, 5) { [3_000u64, 20_000, 100_000, 400_000][rng.below(4)] } else { 0 },
    }
}

fn first_difference(a: &Observables, b: &Observables) -> Option<(String, String)> {
    let keys: BTreeSet<&String> = a.keys().chain(b.keys()).collect();
    for k in keys {
        let (x, y) = (a.get(k), b.get(k));
        if x != y {
            let xs: Vec<&str> = x.map(|s| s.lines().collect()).unwrap_or_default();
            let ys: Vec<&str> = y.map(|s| s.lines().collect()).unwrap_or_default();
            for i in 0..xs.len().max(ys.len()) {
                if xs.get(i) != ys.get(i) {
                    let (a, b) = (xs.get(i).copied().unwrap_or("<absent>"), ys.get(i).copied().unwrap_or("<absent>"));
                    let ca: Vec<char> = a.chars().collect();
                    let cb: Vec<char> = b.chars().collect();
                    let p = ca.iter().zip(cb.iter()).take_while(|(x, y)| x == y).count();
                    let from = p.saturating_sub(60);
                    let cut = |c: &Vec<char>| c.iter().skip(from).take(200).collect::<String>();
                    return Some((k.clone(), format!("line {i} col {p}: reference=...{:?} this run=...{:?}", cut(&ca), cut(&cb))));
                }
            }
            return Some((k.clone(), "presence differs".into()));
        }
    }
    None
}

pub struct Opts {
    pub tier: String,
    pub workers: usize,
    pub budget_s: u64,
    pub log: Option<PathBuf>,
    pub only: Option<String>,
    pub runs: Option<usize>,
    pub level2: bool,
}

pub fn corpus(level2: bool, quick: bool) -> Vec<(ProjectRef, usize)> {
    let repo = simcore::repo_root();
    let wl = simcore::verif_root().join("workloads/projects");
    let mut v = vec![];
    let mut local: Vec<String> = std::fs::read_dir(&wl).map(|r| r.filter_map(|e| e.ok()).filter(|e| e.path().is_dir()).map(|e| e.file_name().to_string_lossy().to_string()).collect()).unwrap_or_default();
    local.sort();
    // (project, weight = runs per batch)
    v.push((ProjectRef { name: "repo:examples".into(), root: repo.join("examples"), starknet: false }, if level2 { 4 } else { 12 }));
    for n in local {
        let root = wl.join(&n);
        let starknet = crate::project::Project::load_dir(&root, &n).starknet;
        v.push((ProjectRef { name: n, root, starknet }, if level2 { 8 } else { 16 }));
    }
    if !level2 {
        v.push((ProjectRef { name: "repo:bug_samples".into(), root: repo.join("tests/bug_samples"), starknet: true }, if quick { 3 } else { 4 }));
        if !quick {
            v.push((ProjectRef { name: "repo:starknet_cairo_level_tests".into(), root: repo.join("crates/cairo-lang-starknet/cairo_level_tests"), starknet: true }, 2));
        }
    }
    v
}

fn replay_value(project: &ProjectRef, plan: &Plan, class: &str, detail: &str, level2: bool, seed: u64) -> Value {
    json!({
        "property": "C12", "engine": if level2 { "simdb-shuttle" } else { "simdb" }, "level": if level2 { 2 } else { 1 },
        "seed": seed, "project": project.name, "project_root": project.root, "starknet": project.starknet,
        "plan": plan, "class": class, "detail": detail,
    })
}

/// All differences of a run from the reference: (class, detail, specific signature items).
/// Diagnostics-type observables are described by the `file:code` items of the entries that differ;
/// all Sierra-derived observables (Sierra texts, annotations, registry, contract classes) form one
/// group, described by the functions whose `withdraw_gas` count differs (or `other`).
fn differences(reference: &Observables, out: &RunOut) -> Vec<(String, String, String)> {
    let keys: BTreeSet<&String> = reference.keys().chain(out.obs.keys()).collect();
    let mut v = vec![];
    let mut sierra_group: Option<(String, String)> = None;
    for k in keys {
        let (x, y) = (reference.get(k), out.obs.get(k));
        if x == y {
            continue;
        }
        let one = |m: Option<&String>| -> Observables { m.map(|s| [(k.clone(), s.clone())].into_iter().collect()).unwrap_or_default() };
        let detail = first_difference(&one(x), &one(y)).map(|(_, d)| d).unwrap_or_default();
        let class = if k == "PANIC" { "no-output".to_string() } else { format!("{k}-differs") };
        if k.contains("diagnostics") {
            let items = dbx::diag_diff_items(x.map(|s| s.as_str()).unwrap_or(""), y.map(|s| s.as_str()).unwrap_or("")).join(",");
            v.push((class, detail, items));
        } else if k == "PANIC" {
            v.push((class, detail, String::new()));
        } else if sierra_group.is_none() {
            sierra_group = Some((class, detail));
        }
    }
    if let Some((class, detail)) = sierra_group {
        let empty = String::new();
        let (a, b) = (reference.get("sierra_debug_names").unwrap_or(&empty), out.obs.get("sierra_debug_names").unwrap_or(&empty));
        let items = dbx::sierra_withdraw_gas_items(a, b);
        let items = if items.is_empty() { "other".to_string() } else { format!("withdraw_gas@{}", items.join(",withdraw_gas@")) };
        v.push((format!("sierra-group/{class}"), detail, items));
    }
    v
}

fn judge(reference: &Observables, out: &RunOut) -> Option<(String, String)> {
    differences(reference, out).into_iter().next().map(|(c, d, _)| (c, d))
}

pub fn replay(path: &Path, quiet: bool) -> i32 {
    let v: Value = serde_json::from_str(&std::fs::read_to_string(path).unwrap_or_else(|e| harness_error(&format!("{e}")))).unwrap_or_else(|e| harness_error(&format!("{e}")));
    let level = v["level"].as_u64().unwrap_or(1);
    if (level == 2) != cfg!(feature = "shuttle") {
        harness_error("this replay file is for the other build of simdb (level 1 = plain, level 2 = shuttle)");
    }
    let project = ProjectRef { name: v["project"].as_str().unwrap_or("").into(), root: PathBuf::from(v["project_root"].as_str().unwrap_or("")), starknet: v["starknet"].as_bool().unwrap_or(false) };
    let plan: Plan = serde_json::from_value(v["plan"].clone()).unwrap_or_else(|e| harness_error(&format!("plan: {e}")));
    let mut c = Counters::default();
    // A difference that comes from a source no seam controls (e.g. a std HashMap seeded by the OS)
    // shows in some fresh processes and not in others: up to 6 trials; a controlled difference
    // reproduces on the first.
    let want0 = v["class"].as_str().unwrap_or("").to_string();
    let mut reference = execute(&project, &Plan::reference(), &mut c);
    let mut out = execute(&project, &plan, &mut c);
    for trial in 1..10 {
        if differences(&reference.obs, &out).iter().any(|(cl, _, _)| *cl == want0 || cl.ends_with(&format!("/{want0}"))) {
            if trial > 1 && !quiet {
                println!("reproduced on trial {trial} (the source of the difference is not under a seam)");
            }
            break;
        }
        reference = execute(&project, &Plan::reference(), &mut c);
        out = execute(&project, &plan, &mut c);
    }
    if let Ok(dir) = std::env::var("VERIF_DUMP_DIR") {
        let _ = std::fs::create_dir_all(&dir);
        for (k, v) in &reference.obs {
            let _ = std::fs::write(format!("{dir}/reference.{k}.txt"), v);
        }
        for (k, v) in &out.obs {
            let _ = std::fs::write(format!("{dir}/run.{k}.txt"), v);
        }
    }
    let want = v["class"].as_str().unwrap_or("").to_string();
    match differences(&reference.obs, &out).into_iter().find(|(c, _, _)| *c == want || c.ends_with(&format!("/{want}"))).map(|(c, d, _)| (c, d)) {
        Some((class, detail)) => {
            if !quiet {
                println!("reproduced {class}: {detail}");
                println!("VIOLATION property=C12 replay={}", path.display());
            }
            simcore::EXIT_VIOLATION
        }
        other => {
            if !quiet {
                println!("not reproduced: {other:?}");
            }
            simcore::EXIT_OK
        }
    }
}

pub struct LevelSummary {
    pub evaluations: u64,
    pub counters: Counters,
    pub raw_sigs: BTreeSet<(String, u64)>,
    pub attr_sigs: BTreeSet<u64>,
    pub runs_with_parallel_queries: u64,
    pub violations: usize,
    pub samples: Vec<Value>,
    pub wall_s: f64,
    pub exit: i32,
    pub log: Vec<String>,
    pub queries: u64,
    pub tasks: u64,
}

/// Runs one level and returns its summary (evidence is assembled by the caller, which may merge
/// level 1 and level 2).
pub fn run_level(opts: &Opts) -> LevelSummary {
    let t0 = Instant::now();
    let seed = simcore::verif_seed();
    let quick = opts.tier != "thorough";
    let level2 = opts.level2;
    let corpus: Vec<(ProjectRef, usize)> = corpus(level2, quick).into_iter().filter(|(p, _)| opts.only.as_ref().map(|o| p.name.contains(o.as_str())).unwrap_or(true)).collect();
    println!("simdb c12 level {}: tier={} VERIF_SEED={seed} projects={:?}", if level2 { 2 } else { 1 }, opts.tier, corpus.iter().map(|(p, w)| format!("{}x{}", p.name, w)).collect::<Vec<_>>());
    // References: plainest execution, computed twice in this process (different hash seed the second time).
    let refs: Vec<(RunOut, RunOut)> = par_map(corpus.len(), opts.workers, 1024, |i| {
        let mut c = Counters::default();
        let a = execute(&corpus[i].0, &Plan::reference(), &mut c);
        let mut p2 = Plan::reference();
        p2.hash_seed = mix(seed, 0xabcdef);
        let b = execute(&corpus[i].0, &p2, &mut c);
        (a, b)
    });
    let mut sum = LevelSummary { evaluations: 0, counters: Counters::default(), raw_sigs: BTreeSet::new(), attr_sigs: BTreeSet::new(), runs_with_parallel_queries: 0, violations: 0, samples: vec![], wall_s: 0.0, exit: simcore::EXIT_OK, log: vec![], queries: 0, tasks: 0 };
    let mut findings: Vec<(usize, Plan, String, String)> = vec![];
    let known = KnownFindings::load();
    let mut known_hits: BTreeSet<String> = BTreeSet::new();
    for (i, (a, b)) in refs.iter().enumerate() {
        sum.evaluations += 2;
        sum.raw_sigs.insert((corpus[i].0.name.clone(), a.raw_sig));
        if let Some((class, d)) = judge(&a.obs, b) {
            let mut p2 = Plan::reference();
            p2.hash_seed = mix(seed, 0xabcdef);
            findings.push((i, p2, format!("unscheduled-nondeterminism/{class}"), d));
        }
        if a.obs.contains_key("PANIC") {
            println!("note: reference run of {} panics: {}", corpus[i].0.name, a.obs["PANIC"]);
        }
    }
    // Listed findings are re-executed from their committed replay files (level 1 only): while
    // one still reproduces and is fully explained by the list, its KNOWN-FINDING line is printed; a
    // difference the list does not explain is reported like any other violation.
    if !level2 {
        let mut seen = BTreeSet::new();
        for f in known.findings.iter().filter(|f| f.property == "C12") {
            let Some(rp) = &f.replay else { continue };
            if !seen.insert(rp.clone()) {
                continue;
            }
            let Ok(text) = std::fs::read_to_string(simcore::verif_root().join(rp)) else { continue };
            let Ok(v) = serde_json::from_str::<Value>(&text) else { continue };
            if v["level"].as_u64() != Some(1) {
                continue;
            }
            let Ok(plan) = serde_json::from_value::<Plan>(v["plan"].clone()) else { continue };
            let Some(i) = corpus.iter().position(|(p, _)| p.name == v["project"].as_str().unwrap_or("")) else { continue };
            let mut c = Counters::default();
            let out = execute(&corpus[i].0, &plan, &mut c);
            sum.evaluations += 1;
            let diffs = differences(&refs[i].0.obs, &out);
            if diffs.is_empty() {
                println!("note: listed finding {rp} no longer reproduces");
                continue;
            }
            let unexplained: Vec<_> = diffs.iter().filter(|(class, _, items)| known.lookup("C12", &format!("{class}|{}|{items}", corpus[i].0.name)).is_none()).collect();
            if unexplained.is_empty() {
                known_hits.insert(format!("KNOWN-FINDING: property=C12 {}", f.what));
                sum.counters.inc("listed_findings_reproduced");
            } else {
                let (class, d, items) = unexplained[0];
                findings.push((i, plan, class.clone(), format!("{d} [differing: {items}]")));
            }
        }
    }
    let mut units: Vec<(usize, u64)> = vec![];
    let mut batch = 0u64;
    loop {
        units.clear();
        for (i, (_, w)) in corpus.iter().enumerate() {
            let w = opts.runs.unwrap_or(*w);
            for k in 0..w {
                units.push((i, batch * 1000 + k as u64));
            }
        }
        let outs = par_map(units.len(), opts.workers, 1024, |u| {
            let (i, k) = units[u];
            let rseed = mix(mix(seed, fnv64(corpus[i].0.name.as_bytes())), k);
            let plan = generate_plan(rseed, level2);
            let mut c = Counters::default();
            let out = execute(&corpus[i].0, &plan, &mut c);
            (i, plan, out, c)
        });
        for (i, plan, out, c) in outs {
            sum.evaluations += 1;
            sum.counters.merge(&c);
            sum.counters.inc(&format!("workers/{}", plan.workers));
            sum.counters.inc(&format!("prefix_len/{}", match plan.prefix.len() { 0 => "0", 1..=4 => "1-4", 5..=12 => "5-12", _ => "13+" }));
            if level2 {
                sum.counters.inc(&format!("scheduler/{}", plan.scheduler));
            } else {
                sum.counters.inc(&format!("task_order/{}", ["prng_permutation", "reverse", "in_order"][plan.task_order as usize % 3]));
            }
            sum.raw_sigs.insert((corpus[i].0.name.clone(), out.raw_sig));
            sum.attr_sigs.insert(out.attr_sig);
            sum.queries += out.queries_executed;
            sum.tasks += out.tasks_run;
            if out.tasks_with_queries >= 2 {
                sum.runs_with_parallel_queries += 1;
            }
            sum.log.push(format!("{} plan={} obs={} raw={} attr={} q={} tasks={}", corpus[i].0.name, hex64(fnv64(serde_json::to_string(&plan).unwrap().as_bytes())), hex64(fnv64(format!("{:?}", out.obs).as_bytes())), hex64(out.raw_sig), hex64(out.attr_sig), out.queries_executed, out.tasks_run));
            if sum.samples.len() < 3 && !plan.prefix.is_empty() {
                sum.samples.push(json!({"project": corpus[i].0.name, "plan": plan, "tasks_run": out.tasks_run, "queries_executed": out.queries_executed, "raw_id_signature": hex64(out.raw_sig)}));
            }
            let diffs = differences(&refs[i].0.obs, &out);
            let unexplained: Vec<_> = diffs
                .iter()
                .filter(|(class, _, items)| known.lookup("C12", &format!("{class}|{}|{items}", corpus[i].0.name)).is_none())
                .collect();
            if !diffs.is_empty() && unexplained.is_empty() {
                for (class, _, items) in &diffs {
                    let k = known.lookup("C12", &format!("{class}|{}|{items}", corpus[i].0.name)).unwrap();
                    let _ = (class, items);
                    known_hits.insert(format!("KNOWN-FINDING: property=C12 {}", k.what));
                }
                sum.counters.inc("runs_explained_by_known_findings");
            } else if let Some((class, d, items)) = unexplained.first() {
                findings.push((i, plan, format!("{class}"), format!("{d} [differing diagnostics: {items}]")));
            }
        }
        batch += 1;
        if quick || !findings.is_empty() || t0.elapsed().as_secs() >= opts.budget_s {
            break;
        }
    }

    for k in &known_hits {
        println!("{k}");
    }
    // Report findings: minimise the prefix and the plan, write replay, confirm in a fresh process.
    let replay_dir = simcore::verif_root().join("replays/C12");
    let mut reported = BTreeSet::new();
    for (i, plan, class, detail) in findings {
        let project = &corpus[i].0;
        let sig = format!("{class}|{}", project.name);
        if !reported.insert(sig.clone()) || reported.len() > 6 {
            continue;
        }
        let fails = |p: &Plan| -> bool {
            let mut c = Counters::default();
            let out = execute(project, p, &mut c);
            differences(&refs[i].0.obs, &out).iter().any(|(cl, _, items)| {
                class.ends_with(cl.as_str()) && known.lookup("C12", &format!("{cl}|{}|{items}", project.name)).is_none()
            })
        };
        let mut min = plan.clone();
        if !min.prefix.is_empty() {
            let pre = simcore::ddmin(&min.prefix, |cand| {
                let mut p = min.clone();
                p.prefix = cand.to_vec();
                fails(&p)
            });
            let mut p = min.clone();
            p.prefix = pre;
            if fails(&p) {
                min = p;
            }
        }
        if !level2 {
            for w in [1usize, 2] {
                if w < min.workers {
                    let mut p = min.clone();
                    p.workers = w;
                    if fails(&p) {
                        min = p;
                        break;
                    }
                }
            }
        }
        let cls = class.rsplit('/').next().unwrap().to_string();
        let _ = std::fs::create_dir_all(&replay_dir);
        let path = replay_dir.join(format!("{seed}-L{}-{}.json", if level2 { 2 } else { 1 }, hex64(fnv64(format!("{sig}{:?}", min).as_bytes()))));
        std::fs::write(&path, serde_json::to_string_pretty(&replay_value(project, &min, &cls, &detail, level2, seed)).unwrap()).unwrap();
        let me = std::env::current_exe().unwrap();
        let st = std::process::Command::new(me).arg("replay").arg(&path).arg("--quiet").status();
        match st {
            Ok(s) if s.code() == Some(1) => {
                println!("VIOLATION property=C12 replay={}", path.display());
                println!("  {class} in {} (prefix {} ops, workers {}): {detail}", project.name, min.prefix.len(), min.workers);
                sum.violations += 1;
                sum.exit = simcore::EXIT_VIOLATION;
            }
            other => harness_error(&format!("replay of {path:?} in a fresh process did not reproduce: {other:?}")),
        }
    }
    sum.wall_s = t0.elapsed().as_secs_f64();
    println!(
        "simdb c12 level {}: {} runs in {:.1}s; distinct raw-id signatures {}; distinct interleaving signatures {}; runs with >=2 tasks executing queries {}; tasks {}; violations {}",
        if level2 { 2 } else { 1 }, sum.evaluations, sum.wall_s, sum.raw_sigs.len(), sum.attr_sigs.len(), sum.runs_with_parallel_queries, sum.tasks, sum.violations
    );
    sum
}

pub fn summary_json(s: &LevelSummary) -> Value {
    json!({
        "runs": s.evaluations,
        "wall_s": s.wall_s,
        "runs_per_hour": (s.evaluations as f64 / s.wall_s.max(0.001) * 3600.0) as u64,
        "distinct_raw_id_signatures": s.raw_sigs.len(),
        "distinct_interleaving_signatures": s.attr_sigs.len(),
        "runs_with_two_or_more_tasks_executing_queries": s.runs_with_parallel_queries,
        "simulated_tasks": s.tasks,
        "queries_executed": s.queries,
        "plan_and_fault_counters": s.counters.to_json(),
        "violations": s.violations,
        "samples": s.samples,
    })
}

pub fn write_summary(s: &LevelSummary, level2: bool) {
    let p = simcore::verif_root().join(format!("sim/scratch/c12-level{}.json", if level2 { 2 } else { 1 }));
    let _ = std::fs::create_dir_all(p.parent().unwrap());
    std::fs::write(&p, serde_json::to_string_pretty(&json!({"summary": summary_json(s), "distinct": s.raw_sigs.len(), "exit": s.exit})).unwrap()).unwrap();
}

/// Writes evidence/C12.json from the level summaries present in scratch (level 1 mandatory).
pub fn write_evidence(tier: &str) {
    let seed = simcore::verif_seed();
    let read = |l: u8| -> Option<Value> {
        let p = simcore::verif_root().join(format!("sim/scratch/c12-level{l}.json"));
        serde_json::from_str(&std::fs::read_to_string(p).ok()?).ok()
    };
    let l1 = read(1).unwrap_or_else(|| harness_error("level 1 summary missing"));
    let l2 = read(2);
    let mut ev = Evidence::new("C12", tier, seed, "exploration");
    let runs = l1["summary"]["runs"].as_u64().unwrap_or(0) + l2.as_ref().map(|v| v["summary"]["runs"].as_u64().unwrap_or(0)).unwrap_or(0);
    let distinct = l1["distinct"].as_u64().unwrap_or(0) + l2.as_ref().map(|v| v["distinct"].as_u64().unwrap_or(0)).unwrap_or(0);
    ev.wall_s = l1["summary"]["wall_s"].as_f64().unwrap_or(0.0) + l2.as_ref().map(|v| v["summary"]["wall_s"].as_f64().unwrap_or(0.0)).unwrap_or(0.0);
    ev.violations = (l1["summary"]["violations"].as_u64().unwrap_or(0) + l2.as_ref().map(|v| v["summary"]["violations"].as_u64().unwrap_or(0)).unwrap_or(0)) as usize;
    ev.set("evaluations", json!(runs));
    ev.set("distinct_nontrivial", json!(distinct));
    ev.set("rule", json!("One evaluation = one complete compilation of a corpus project through the real entry points (compile_prepared_db_program_artifact, get_sierra_program, starknet compile_prepared_db, DiagnosticsReporter) under a simulated plan: hash seed, worker count, task order / shuttle schedule, and a PRNG history prefix of unrelated queries, compared byte-for-byte with the plainest execution. distinct_nontrivial = distinct (project, raw-id signature) pairs, the raw-id signature being a hash of the Sierra program before id replacement: it changes exactly when interning order changed, which is the state the property is about."));
    ev.set("level1_task_permutation_plain_salsa", l1["summary"].clone());
    if let Some(l2) = &l2 {
        ev.set("level2_shuttle_schedules", l2["summary"].clone());
    }
    let mut samples = l1["summary"]["samples"].as_array().cloned().unwrap_or_default();
    if let Some(l2) = &l2 {
        samples.extend(l2["summary"]["samples"].as_array().cloned().unwrap_or_default());
    }
    if samples.is_empty() {
        samples.push(json!({"plan": Plan::reference()}));
    }
    ev.set("samples", json!(samples));
    ev.set("simulated_time", json!({"unit": "logical steps (simulated tasks and executed queries); there is no clock in this system", "tasks": l1["summary"]["simulated_tasks"], "queries": l1["summary"]["queries_executed"]}));
    ev.set("observables_compared", json!(["sierra_debug_names (Program Display after replace_ids)", "sierra_canonical_ids (CanonicalReplacer)", "annotations (statements functions / code locations / functions debug info / type names)", "artifact_diagnostics", "diagnostics", "contract_class_<i> JSON (Starknet projects)", "CASM text of the program (RunnableBuilder: registry, gas/ap-change metadata, sierra-to-casm)", "contract_class_<i>_casm (CasmContractClass JSON)"]));
    ev.set("real_vs_stub", json!({
        "real": ["the whole compiler and its warm-up code (built from /repo working tree)", "salsa 0.28.2 (level 2: with its shuttle feature, mutexes/condvars/atomics are shuttle's)"],
        "simulated": ["rayon thread pool and OS scheduler (H1 shim + simulated executor / shuttle scheduler)", "hash seeds of cairo-lang-utils maps (H2)", "the build driver's query history"],
    }));
    ev.assumptions = vec![
        "level 1 tasks are atomic; level 2 interleaves only at salsa's synchronisation points (shuttle models SeqCst)".into(),
        "rayon's work-stealing deque is replaced by a simpler pool with the same task set".into(),
        "corpus-bounded: /repo/examples, tests/bug_samples, starknet cairo_level_tests (thorough), /verif/workloads/projects".into(),
    ];
    ev.write_to(&simcore::verif_root().join("evidence/C12.json"));
}
