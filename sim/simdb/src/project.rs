//! Project templates: a set of files (relative path -> content) with a cairo_project.toml.

use std::collections::BTreeMap;
use std::path::Path;

use serde_json::{Value, json};
use simcore::harness_error;

#[derive(Clone, Debug)]
pub struct Project {
    pub name: String,
    pub starknet: bool,
    pub files: BTreeMap<String, String>,
}

fn walk(dir: &Path, base: &Path, out: &mut BTreeMap<String, String>) {
    let mut entries: Vec<_> = std::fs::read_dir(dir).map(|r| r.filter_map(|e| e.ok()).collect()).unwrap_or_default();
    entries.sort_by_key(|e: &std::fs::DirEntry| e.path());
    for e in entries {
        let p = e.path();
        if p.is_dir() {
            walk(&p, base, out);
        } else if p.extension().map(|x| x == "cairo" || x == "toml").unwrap_or(false) {
            let rel = p.strip_prefix(base).unwrap().to_string_lossy().to_string();
            if let Ok(c) = std::fs::read_to_string(&p) {
                out.insert(rel, c);
            }
        }
    }
}

impl Project {
    pub fn load_dir(dir: &Path, name: &str) -> Project {
        let mut files = BTreeMap::new();
        walk(dir, dir, &mut files);
        if !files.contains_key("cairo_project.toml") {
            harness_error(&format!("{dir:?} has no cairo_project.toml"));
        }
        let starknet = files.values().any(|c| c.contains("#[starknet::"));
        Project { name: name.to_string(), starknet, files }
    }

    /// All projects under a directory (one sub-directory each).
    pub fn load_all(dir: &Path) -> Vec<Project> {
        let mut names: Vec<_> = std::fs::read_dir(dir)
            .unwrap_or_else(|e| harness_error(&format!("{dir:?}: {e}")))
            .filter_map(|e| e.ok())
            .filter(|e| e.path().is_dir())
            .map(|e| e.file_name().to_string_lossy().to_string())
            .collect();
        names.sort();
        names.iter().map(|n| Project::load_dir(&dir.join(n), n)).collect()
    }

    pub fn materialise(&self, dir: &Path) {
        for (rel, c) in &self.files {
            let p = dir.join(rel);
            if let Some(d) = p.parent() {
                std::fs::create_dir_all(d).unwrap_or_else(|e| harness_error(&format!("mkdir {d:?}: {e}")));
            }
            std::fs::write(&p, c).unwrap_or_else(|e| harness_error(&format!("write {p:?}: {e}")));
        }
    }

    pub fn to_json(&self) -> Value {
        json!({"name": self.name, "starknet": self.starknet, "files": self.files})
    }
    pub fn from_json(v: &Value) -> Option<Project> {
        Some(Project {
            name: v["name"].as_str()?.to_string(),
            starknet: v["starknet"].as_bool()?,
            files: serde_json::from_value(v["files"].clone()).ok()?,
        })
    }
}
