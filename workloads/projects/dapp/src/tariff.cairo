#[derive(Copy, Drop, Serde, starknet::Store)]
pub struct Tariff {
    pub per_mille: u16,
    pub flat: u64,
}

pub fn charge(t: Tariff, amount: u64) -> u64 {
    t.flat + amount * t.per_mille.into() / 1000
}
