#[derive(Copy, Drop, Serde, PartialEq, starknet::Store)]
pub enum Mode {
    #[default]
    Open,
    Frozen,
    Draining,
}

#[derive(Copy, Drop, Serde, starknet::Store)]
pub struct Tag {
    pub group: u8,
    pub code: u32,
}
