#!/usr/bin/env python3
"""Writes seeded/<id>/meta.json from the agent's meta, my confirmation run and my detection results."""
import json, os, glob
ROOT = os.path.dirname(os.path.dirname(os.path.abspath(__file__)))
# id-prefix -> (property, detected_by, how)
DETECTION = {
 "S01": ("C03", "quick", "generated bounded_int_div_rem instantiation (narrow lhs, rhs.upper >= 2^123) + wrap-around DivMod lie divmod(n + k*P, d)"),
 "S02": ("C03", "quick", "generated instantiation in the guard zone (lhs.upper >= 2^246, rhs in [2^118, 2^128]) accepted only with the change + wrap-around DivMod lie"),
 "S03": ("C03", "quick", "missed by quick with 160 generated instantiations (thorough with 800 caught it); quick now generates 320 and catches it: threshold-mode instantiation with rhs.upper > 2^128 + 1, divisor just above 2^128, wrap-around DivMod lie"),
 "S04": ("C03", "quick", "arrays.cairo::wide3_get_at_len (3-cell elements, index == len, data behind the span) + flipped TestLessThan; missed before the catalogue had elements wider than 2 cells"),
 "S05": ("C03", "quick", "arrays.cairo::wide3_arg_slice / wide3_slice_exact + flipped TestLessThanOrEqual; missed before wide elements were added"),
 "S06": ("C03", "quick", "arrays.cairo::multi_pop_front3_behind / multi_pop_back3_behind (span of exactly 3 cells) + flipped TestLessThanOrEqualAddress; missed before array lengths 3,4,6 were added"),
 "S07": ("C12", "quick", "level 1: one history op (module diagnostics of a later module first) changes function order; examples and basic projects"),
 "S08": ("C12", "quick", "level 1: task permutation with 2 workers on project contract (two contracts); needed the H1 shim to offer try_for_each_with (build failed before) and a second contract in the template"),
 "S09": ("C12", "quick", "level 1: project errors (ambiguous impl + explicit use in another module), prefix analyses the other module first; missed before the errors project existed"),
 "S10": ("C13", "quick", "insert a line above an item with diagnostics, query, compare: stale line/column"),
 "S11": ("C13", "quick", "(quick since it runs 256 histories; thorough only while quick ran 48-128) swap_adjacent_lines of two struct members in one edit: Sierra keeps the old member order; missed before the adjacent-swap edit kinds existed (then 2 of 3 seeds with 96 histories); quick caught it with 64 histories and the default seed for a while; after the corpus grew (18 projects share the histories) it is thorough that reports it (first batch)"),
 "S12": ("C13", "quick", "disk write under an override, unset: incremental database keeps the first-read content"),
 "S13": ("C03", "quick", "generated downcast instantiation (below-only, positive lower bound) + flipped TestLessThan"),
 "S14": ("C03", "quick", "missed at first (quick and 240 s thorough): no target range ending exactly at 2^128-1; caught after the generator draws half of its endpoints from the switch values (0, 2^128-1, 2^128, signed bounds) and bounded.cairo got dc_felt_upper_at_rc_bound"),
 "S15": ("C03", "quick", "thorough only at first; quick after the generator got standard integer sources and bounded.cairo got dc_i8_below_only_neg"),
 "S16": ("C13", "quick", "missed at first (no item with a deprecated/unstable note, no edit inside string literals); caught after basic/src/util.cairo got #[deprecated(note)] / #[unstable(note)] items used from lib.cairo and the edit kind edit_string_literal"),
 "S17": ("C13", "quick", "(quick since it runs 256 histories; thorough only while quick ran 48-128) missed at first; the check can see it (manual history: move one space inside array![..] around an undefined name => stale column) but the default mix rarely produced that edit; after shift_space_in_line (double weight, prefers macro-call lines, string-literal aware), macro-error lines in the errors project and the small macros project, thorough reports it in its first batch (96 histories of <= 30 steps); the 48 short histories of quick still miss it"),
 "S18": ("C13", "quick", "declare_new_module / swap_adjacent_items put a mod line above another one: module order follows intern ids"),
 "S19": ("C12", "quick", "level 1 (2 workers, no prefix) and level 2: the warm-up task raises the shared flag before the reporter runs, lowering diagnostics of the errors project disappear"),
 "S21": ("C13", "quick", "missed at first (no user-defined macros in any template); caught after the usermacros project (item-level macros with expose!, one expansion with a type error): change_literal inside a macro rule / comment lines above a macro call"),
 "S22": ("C13", "quick", "(quick since it runs 256 histories; thorough only while quick ran 48-128) missed at first (pub toggled only at item level, members on separate lines); after toggle_pub learned member-level toggling and usermacros/src/points.cairo got one-line structs read from another module, thorough reports it (E2059 member not visible kept / missing); the first thorough run instead tripped over a bug of MY harness (fresh-reference memo keyed without the project identity) - see DESIGN 12.10"),
 "S23": ("C13", "quick", "any rename / item insertion after a query"),
 "S24": ("C03", "quick", "generated bounded_int_constrain instantiation with a negative boundary (and bounded.cairo::constrain_neg) + flipped TestLessThanOrEqual"),
 "S25": ("C03", "quick", "bounded.cairo::dc_i8_above_only / generated above-only downcasts with a negative lower bound + flipped hint"),
 "S26": ("C03", "quick", "generated above-only downcast with a shared positive lower bound + flipped hint"),
 "S27": ("C12", "quick", "thorough only at first (the starknet cairo_level_tests corpus has several circuits); quick since the circuits project (3 circuit descriptors): CASM differs with the H2 hash seed, reproducibly"),
 "S28": ("C12", "quick", "missed at first (no executables in the corpus); caught after the executables project (same-named #[executable] functions in three modules, executable plugin enabled through a marker in cairo_project.toml)"),
 "S29": ("C12", "quick", "std HashSet seeded by the OS: not under the H2 seam. First run: the thorough self-test called it a harness error. Now the errors project has a method-not-found error with candidates from two crates; level 1 reports the difference (via the re-executed known-finding replay, whose extra differing entry flow.cairo:E0002 the list does not explain) and replays retry up to 10 fresh processes because such a difference shows in about half of them"),
 "S30": ("C13", "quick", "(quick since it runs 256 histories; thorough only while quick ran 48-128) missed at first (no edit flips an attribute argument); the oracle sees it (manual 3-op history: #[inline(always)] -> #[inline(never)] on pipeline::hashing::small gives stale Sierra); caught by thorough after the edit kind change_attribute (double weight), inline attributes in three templates and 'gentle' histories that stay near compiling programs"),
 "S31": ("C13", "quick", "(quick since it runs 256 histories; thorough only while quick ran 48-128) comment/blank line above a function with a use-after-move: the notes of the lowering diagnostic keep the old line:column"),
 "S32": ("C13", "quick", "missed at first: the only recursive types were constructed and matched elsewhere, so changing them broke the build and the Sierra was never compared; caught after pass-through-only recursive enums (pipeline::recursive::Chain/Rose), the edit kind add_variant_or_member and gentle histories"),
 "S33": ("C12", "quick", "missed at first (no two destructors meeting at one program point); caught after pipeline got dtypes/uses_da/uses_db/uses_both (two never-inlined Destruct impls, values dropped at the same point), by the warm-up permutation alone (2 workers, no prefix)"),
 "S34": ("C12", "quick", "level 1, history prefix compiling one caller first"),
 "S35": ("C12", "quick", "missed at first (every signature type also occurred in some libfunc); caught after pipeline got three signature-only empty structs in three modules: type declaration order follows interning order under a 2-worker warm-up"),
 "S36": ("C12", "quick", "level 1, project dapp (three #[abi(embed_v0)] aliases, glue.cairo mentions the later ones): contract class differs under the 2-worker warm-up permutation alone; written after the seed arrived - the older component project had one embedded alias only"),
 "S37": ("C12", "quick", "level 1, project dapp (IMarket::tune takes Quota, Tariff, Tag from three modules): order of struct items in the ABI differs under a 2-worker warm-up"),
 "S38": ("C12", "quick", "level 1, project dapp (three components sharing the storage name nonce): the colliding-path warning names another pair after one prefix op"),
 "S39": ("C13", "quick", "needed two additions: the edit that toggles #[flat] / #[key] on event fields (change_attribute) and the contract classes (ABI, entry points) as part of the C13 observable for Starknet projects; 3-op history on dapp: ABI keeps the old event kind"),
 "S40": ("C13", "quick", "add_variant_or_member / rename on a struct with derived PartialEq: stale generated impl (Sierra differs or a member-not-found error)"),
 "S41": ("C13", "quick", "(quick since it runs 256 histories; thorough only while quick ran 48-128) missed at first (no item-level macro whose plugin diagnostic has an inner span); after compile_error!(3 + 4) in errors/dup.cairo and the snerrors project (component! argument errors) thorough reports a stale column after shift_space_in_line; the 128 short histories of quick miss it with the default seed"),
 "S42": ("C03", "quick", "arrays.cairo wide3_* functions (3-cell elements, index inside the span) + flipped TestLessThan: the out-of-bounds branch is taken for a valid index"),
 "S43": ("C03", "quick", "arrays.cairo wide3_arg_slice and friends + flipped TestLessThanOrEqual: a slice past the end succeeds"),
 "S44": ("C03", "quick", "missed at first (largest pop in the catalogue was 6 cells; the change only affects pops wider than 16 cells); caught after multi_pop_front17_behind / multi_pop_back17_behind / multi_pop_front_u256x9_behind (readable data behind the span) + flipped TestLessThanOrEqualAddress"),
 "S45": ("C13", "quick", "any edit that keeps the number of errors of a module but changes which ones (comment line above an error, rename): the aggregated diagnostics of the previous revision are served"),
 "S46": ("C13", "quick", "a line inserted above a syntax error: the parser diagnostic keeps the old offset"),
 "S20": ("C12", "thorough", "missed at first: a process-wide static std Mutex taken with try_lock around a pure computation; contention needs a preemption inside a critical section that contains no synchronisation point shuttle controls. Caught by thorough since level 2 has the allocator-driven preemption seam (a task can lose the processor k allocations after a query event): Sierra of the circuits project differs under a PCT/random schedule with 8 workers, replayable. Before level-1 runs were isolated in child processes the harness's own worker threads contended on that static and produced a difference that did not replay (reported as a harness error, exit 2) - which is why every run now executes in its own process."),
}
for d in sorted(glob.glob(os.path.join(ROOT, "seeded", "S*"))):
    sid = os.path.basename(d)[:3]
    agent = json.load(open(os.path.join(d, "agent_meta.json"))) if os.path.exists(os.path.join(d, "agent_meta.json")) else {}
    confirm = json.load(open(os.path.join(d, "confirm.json"))) if os.path.exists(os.path.join(d, "confirm.json")) else None
    prop, tier, how = DETECTION.get(sid, (agent.get("property", "?"), "not yet run", ""))
    meta = {
        "id": os.path.basename(d),
        "property": prop,
        "what_it_breaks": agent.get("what_it_breaks"),
        "needs_to_manifest": agent.get("needs_to_manifest"),
        "files_touched": agent.get("files_touched"),
        "written_by": "independent sub-agent given only the property text and a scratch worktree",
        "confirmed_by_me": {
            "how": "tools/confirm_seeded.sh in a scratch worktree of the pinned commit: demo with the patch, full nextest suite with the patch, demo without the patch",
            "result": confirm,
            "expected": "demo exit != 0 with the patch, 0 without; suite failures with the patch = only cairo-lang-parser parser::test::full_parser_tree::short (always fails in the baseline)",
        },
        "checked_against": f"git -C /repo apply (patch -p1 -F3) seeded/{os.path.basename(d)}/patch.diff; ./check {prop} quick|thorough; git -C /repo checkout -- .",
        "detected_by": tier,
        "detection_note": how,
    }
    json.dump(meta, open(os.path.join(d, "meta.json"), "w"), indent=1)
print("ok")
