use crate::kinds::Mode;
use crate::market::market;
use crate::tariff::Tariff;

pub fn standard_tariff() -> Tariff {
    Tariff { per_mille: 3, flat: 10 }
}

// Mentions the *last* embedded alias of `market` only.
pub fn market_seen(state: @market::ContractState) -> u64 {
    market::CounterImpl::seen(state)
}

// Mentions the second one.
pub fn market_is_open(state: @market::ContractState) -> bool {
    market::SwitchImpl::mode(state) == Mode::Open
}
