#[derive(Copy, Drop, Serde, starknet::Store)]
pub struct Quota {
    pub floor: u64,
    pub ceiling: u64,
}

pub fn within(q: Quota, v: u64) -> bool {
    v >= q.floor && v <= q.ceiling
}
