pub impl CDrop of Drop<crate::ty::MyType>;
