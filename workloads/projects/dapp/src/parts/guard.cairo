#[starknet::component]
pub mod guard_part {
    use starknet::storage::{StoragePointerReadAccess, StoragePointerWriteAccess};
    use crate::api::IGuard;

    #[storage]
    pub struct Storage {
        pub keeper: felt252,
        pub nonce: u64,
    }

    #[event]
    #[derive(Drop, starknet::Event)]
    pub enum Event {
        HandedOver: HandedOver,
    }

    #[derive(Drop, starknet::Event)]
    pub struct HandedOver {
        #[key]
        pub from: felt252,
        pub to: felt252,
    }

    #[embeddable_as(GuardImpl)]
    pub impl Guard<TContractState, +HasComponent<TContractState>> of IGuard<ComponentState<TContractState>> {
        fn keeper(self: @ComponentState<TContractState>) -> felt252 {
            self.keeper.read()
        }
        fn hand_over(ref self: ComponentState<TContractState>, next: felt252) {
            let from = self.keeper.read();
            self.keeper.write(next);
            self.nonce.write(self.nonce.read() + 1);
            self.emit(HandedOver { from, to: next });
        }
    }

    #[generate_trait]
    pub impl GuardInternal<TContractState, +HasComponent<TContractState>> of GuardInternalTrait<TContractState> {
        fn install(ref self: ComponentState<TContractState>, keeper: felt252) {
            self.keeper.write(keeper);
        }
        fn check(self: @ComponentState<TContractState>, who: felt252) {
            assert(self.keeper.read() == who, 'not the keeper');
        }
    }
}
