use super::math::clamp;

pub fn sum_to(n: u32) -> u32 {
    let mut total = 0_u32;
    let mut i = 0_u32;
    loop {
        if i > n {
            break;
        }
        total += clamp(i, 1, 50);
        i += 1;
    }
    total
}

pub fn describe(x: u8) -> ByteArray {
    format!("value: {}", x)
}

pub enum Shape {
    Dot,
    Line: u32,
    Rect: (u32, u32),
}

pub fn area(s: Shape) -> u32 {
    match s {
        Shape::Dot => 0,
        Shape::Line(_) => 0,
        Shape::Rect((w, h)) => w * h,
    }
}

#[deprecated(feature: "old-describe", note: "use describe instead")]
pub fn old_describe(x: u8) -> felt252 {
    x.into()
}

#[unstable(feature: "fancy", note: "may change at any time")]
pub fn fancy(x: u8) -> u8 {
    x
}
