// Three different circuits (three circuit descriptors in the const segment) and a plain function.
use core::circuit::{
    AddInputResultTrait, CircuitElement, CircuitInput, CircuitInputs, CircuitModulus,
    CircuitOutputsTrait, EvalCircuitTrait, circuit_add, circuit_inverse, circuit_mul, circuit_sub, u384,
};

fn modulus() -> CircuitModulus {
    TryInto::<_, CircuitModulus>::try_into([7, 0, 0, 0]).unwrap()
}

fn circuit_one(a: u384, b: u384) -> u384 {
    let in1 = CircuitElement::<CircuitInput<0>> {};
    let in2 = CircuitElement::<CircuitInput<1>> {};
    let add = circuit_add(in1, in2);
    let mul = circuit_mul(add, in2);
    let out = (mul,).new_inputs().next(a).next(b).done().eval(modulus()).unwrap();
    out.get_output(mul)
}

fn circuit_two(a: u384, b: u384) -> u384 {
    let in1 = CircuitElement::<CircuitInput<0>> {};
    let in2 = CircuitElement::<CircuitInput<1>> {};
    let sub = circuit_sub(in1, in2);
    let inv = circuit_inverse(sub);
    let out = (inv,).new_inputs().next(a).next(b).done().eval(modulus()).unwrap();
    out.get_output(inv)
}

fn circuit_three(a: u384) -> u384 {
    let in1 = CircuitElement::<CircuitInput<0>> {};
    let sq = circuit_mul(in1, in1);
    let cube = circuit_mul(sq, in1);
    let out = (cube,).new_inputs().next(a).done().eval(modulus()).unwrap();
    out.get_output(cube)
}

fn plain(x: u64) -> u64 {
    x * 3 + 1
}
