pub impl BDrop of Drop<crate::ty::MyType>;
