//! C13 demo: `module_macro_modules` is a plain tracked query lying on a cycle that is only
//! recoverable when it is entered through `priv_macro_call_data`/`macro_call_module_id`.
//! A fresh database enters it through name resolution of an unresolved identifier and PANICS
//! ("dependency graph cycle"), while a long-lived database that already analysed the module
//! (before the unresolved identifier was typed) keeps the recovered memos and reports ordinary
//! diagnostics. Hence incremental != fresh for the same final sources.
//!
//! Copy to `crates/cairo-lang-compiler/tests/c13_macro_modules_cycle.rs` and run:
//!   cargo test --offline -p cairo-lang-compiler --test c13_macro_modules_cycle

use std::panic::{AssertUnwindSafe, catch_unwind};
use std::path::PathBuf;

use cairo_lang_compiler::db::RootDatabase;
use cairo_lang_compiler::diagnostics::DiagnosticsReporter;
use cairo_lang_filesystem::db::{CrateConfiguration, FilesGroup};
use cairo_lang_filesystem::ids::{CrateId, CrateInput, Directory, FileLongId, SmolStrId};
use cairo_lang_filesystem::{override_file_content, set_crate_config};
use cairo_lang_utils::Intern;
use salsa::Database;

const ROOT: &str = "/c13_demo_mmc";

/// `geometry.cairo`: an item-level call of an unknown macro (e.g. a half-typed line).
const GEOMETRY: &str = "foo!();\n";

const LIB_REV1: &str = "mod geometry;\nuse geometry::*;\n";
/// The user starts typing a function that calls a not-yet-defined function.
const LIB_REV2: &str = "mod geometry;\nuse geometry::*;\nfn f() -> u32 { bar() }\n";

fn new_db() -> RootDatabase {
    let mut db = RootDatabase::builder().detect_corelib().build().unwrap();
    let db_mut: &mut dyn Database = &mut db;
    let crate_id = CrateId::plain(db_mut, SmolStrId::from(db_mut, "proj"));
    set_crate_config!(
        db_mut,
        crate_id,
        Some(CrateConfiguration::default_for_root(Directory::Real(PathBuf::from(ROOT))))
    );
    db
}

fn set_file(db: &mut RootDatabase, name: &str, content: &str) {
    let db_mut: &mut dyn Database = db;
    let file_id = FileLongId::OnDisk(PathBuf::from(ROOT).join(name)).intern(db_mut);
    override_file_content!(db_mut, file_id, Some(content.into()));
}

fn crate_input(db: &RootDatabase) -> CrateInput {
    let crate_id = CrateId::plain(db, SmolStrId::from(db, "proj"));
    crate_id.long(db).clone().into_crate_input(db)
}

fn diagnostics(db: &RootDatabase) -> String {
    let input = crate_input(db);
    let res = catch_unwind(AssertUnwindSafe(|| {
        let mut s = String::new();
        DiagnosticsReporter::write_to_string(&mut s)
            .with_crates(std::slice::from_ref(&input))
            .allow_warnings()
            .check(db);
        s
    }));
    match res {
        Ok(s) => s,
        Err(e) => {
            let msg = if let Some(s) = e.downcast_ref::<String>() {
                s.lines().next().unwrap_or("").to_string()
            } else if let Some(s) = e.downcast_ref::<&str>() {
                s.lines().next().unwrap_or("").to_string()
            } else {
                "<non-string panic>".to_string()
            };
            format!("PANIC: {msg}")
        }
    }
}

#[test]
fn incremental_equals_fresh_with_unknown_item_macro_in_glob_imported_module() {
    // Long-lived database.
    let mut db = new_db();
    set_file(&mut db, "geometry.cairo", GEOMETRY);
    set_file(&mut db, "lib.cairo", LIB_REV1);
    let inc1 = diagnostics(&db);
    set_file(&mut db, "lib.cairo", LIB_REV2);
    let inc2 = diagnostics(&db);

    // Fresh databases.
    let mut fresh_db = new_db();
    set_file(&mut fresh_db, "geometry.cairo", GEOMETRY);
    set_file(&mut fresh_db, "lib.cairo", LIB_REV1);
    let fresh1 = diagnostics(&fresh_db);
    let mut fresh_db = new_db();
    set_file(&mut fresh_db, "geometry.cairo", GEOMETRY);
    set_file(&mut fresh_db, "lib.cairo", LIB_REV2);
    let fresh2 = diagnostics(&fresh_db);

    assert_eq!(inc1, fresh1, "revision 1");
    assert_eq!(inc2, fresh2, "revision 2: incremental != fresh");
}

/// Second site of the same class: `priv_global_use_imported_module_tracked`
/// (crates/cairo-lang-semantic/src/items/us.rs:356) is a plain tracked query on the cycle
/// `priv_global_use_semantic_data -> (resolution through glob imports) -> module_imported_modules
/// -> priv_global_use_imported_module`.
#[test]
fn incremental_equals_fresh_with_unresolved_glob_use_cycle() {
    // `gen.cairo`: a glob import that cannot be resolved (inside `gen`, `gen` is looked up through
    // the glob imports themselves).
    const GEN: &str = "use gen::*;\n";
    const LIB_REV1: &str = "mod gen;\nuse gen::*;\n";
    const LIB_REV2: &str = "mod gen;\nuse gen::*;\nfn f() -> u32 { bar() }\n";

    let mut db = new_db();
    set_file(&mut db, "gen.cairo", GEN);
    set_file(&mut db, "lib.cairo", LIB_REV1);
    let inc1 = diagnostics(&db);
    set_file(&mut db, "lib.cairo", LIB_REV2);
    let inc2 = diagnostics(&db);

    let mut fresh_db = new_db();
    set_file(&mut fresh_db, "gen.cairo", GEN);
    set_file(&mut fresh_db, "lib.cairo", LIB_REV1);
    let fresh1 = diagnostics(&fresh_db);
    let mut fresh_db = new_db();
    set_file(&mut fresh_db, "gen.cairo", GEN);
    set_file(&mut fresh_db, "lib.cairo", LIB_REV2);
    let fresh2 = diagnostics(&fresh_db);

    assert_eq!(inc1, fresh1, "revision 1");
    assert_eq!(inc2, fresh2, "revision 2: incremental != fresh");
}
