use crate::a::A;
use crate::b::B;
use crate::t::Foo;

pub fn f() -> felt252 {
    Foo::foo(5)
}
