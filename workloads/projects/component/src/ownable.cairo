#[starknet::interface]
pub trait IOwnable<TState> {
    fn owner(self: @TState) -> felt252;
    fn transfer(ref self: TState, new_owner: felt252);
}

#[starknet::component]
pub mod ownable_component {
    use starknet::storage::{StoragePointerReadAccess, StoragePointerWriteAccess};

    #[storage]
    pub struct Storage {
        owner: felt252,
    }

    #[event]
    #[derive(Drop, starknet::Event)]
    pub enum Event {
        Transferred: Transferred,
    }

    #[derive(Drop, starknet::Event)]
    pub struct Transferred {
        pub previous: felt252,
        pub new: felt252,
    }

    #[embeddable_as(OwnableImpl)]
    impl Ownable<TContractState, +HasComponent<TContractState>> of super::IOwnable<ComponentState<TContractState>> {
        fn owner(self: @ComponentState<TContractState>) -> felt252 {
            self.owner.read()
        }
        fn transfer(ref self: ComponentState<TContractState>, new_owner: felt252) {
            let previous = self.owner.read();
            self.owner.write(new_owner);
            self.emit(Transferred { previous, new: new_owner });
        }
    }

    #[generate_trait]
    pub impl InternalImpl<TContractState, +HasComponent<TContractState>> of InternalTrait<TContractState> {
        fn init(ref self: ComponentState<TContractState>, owner: felt252) {
            self.owner.write(owner);
        }
    }
}
