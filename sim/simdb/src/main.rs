fn main() {}
