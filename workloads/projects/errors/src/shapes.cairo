pub trait Area {
    fn area() -> felt252;
}
pub impl Square of Area {
    fn area() -> felt252 {
        4
    }
}
pub impl Circle of Area {
    fn area() -> felt252 {
        3
    }
}
pub impl Triangle of Area {
    fn area() -> felt252 {
        2
    }
}

pub trait Named<T> {
    fn name(self: @T) -> felt252;
}
pub impl NamedU8 of Named<u8> {
    fn name(self: @u8) -> felt252 {
        'u8'
    }
}
pub impl NamedU8Again of Named<u8> {
    fn name(self: @u8) -> felt252 {
        'u8 again'
    }
}
