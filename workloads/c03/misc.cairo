// Remaining hinted libfuncs: storage address casts, felt252 comparisons via u256, bytes31,
// u128s_from_felt252, QM31, IntRange.
use starknet::storage_access::{storage_base_address_from_felt252, storage_address_from_base_and_offset, storage_address_from_base};

fn storage_base(x: felt252) -> felt252 {
    let b = storage_base_address_from_felt252(x);
    storage_address_from_base(b).into()
}
fn storage_base_offset(x: felt252, off: u8) -> felt252 {
    let b = storage_base_address_from_felt252(x);
    storage_address_from_base_and_offset(b, off).into()
}
fn storage_addr_try(x: felt252) -> felt252 {
    let a: Option<starknet::StorageAddress> = x.try_into();
    match a { Some(v) => v.into(), None => 12345 }
}
fn contract_addr_try(x: felt252) -> felt252 {
    let a: Option<starknet::ContractAddress> = x.try_into();
    match a { Some(v) => v.into(), None => 12345 }
}
fn class_hash_try(x: felt252) -> felt252 {
    let a: Option<starknet::ClassHash> = x.try_into();
    match a { Some(v) => v.into(), None => 12345 }
}
fn felt_lt(a: felt252, b: felt252) -> bool {
    let x: u256 = a.into();
    let y: u256 = b.into();
    x < y
}
fn felt_to_u128_pair(a: felt252) -> (u128, u128) {
    let x: u256 = a.into();
    (x.high, x.low)
}
fn bytes31_index(a: felt252, i: u8) -> felt252 {
    let b: Option<bytes31> = a.try_into();
    match b {
        Some(v) => { if i < 31 { v.at(i.into()).into() } else { 300 } },
        None => 301,
    }
}
fn byte_array_build(a: felt252, n: u8) -> felt252 {
    let mut ba: ByteArray = "";
    let mut i: u8 = 0;
    while i != n % 40 {
        ba.append_byte(i + 60);
        i += 1;
    }
    let x: u256 = a.into();
    ba.append_word(x.low.into(), 5);
    ba.len().into() * 256 + ba.at(0).unwrap_or(0).into()
}
fn felt_div(a: felt252, b: NonZero<felt252>) -> felt252 { core::felt252_div(a, b) }
fn poseidon_of(a: felt252, b: felt252) -> felt252 { core::poseidon::poseidon_hash_span(array![a, b].span()) }
fn pedersen_of(a: felt252, b: felt252) -> felt252 { core::pedersen::pedersen(a, b) }
fn bitwise_ops(a: u128, b: u128) -> u128 { (a & b) ^ (a | b) }
fn u64_bitwise(a: u64, b: u64) -> u64 { (a & b) | (a ^ b) }
fn u256_bitwise(a: u256, b: u256) -> u256 { (a & b) ^ (a | b) }
fn shl_u32(a: u32, s: u8) -> u32 { if s < 32 { core::num::traits::WrappingMul::wrapping_mul(a, core::num::traits::Pow::pow(2_u32, (s % 32).into())) } else { 0 } }

// Inputs on both sides of the storage-base-address bound 2^251 - 256 (k = 128 is the bound itself).
fn storage_base_near_bound(k: u8) -> felt252 {
    let x: felt252 = 0x7ffffffffffffffffffffffffffffffffffffffffffffffffffffffffffff00 + k.into() - 128;
    let b = storage_base_address_from_felt252(x);
    storage_address_from_base(b).into()
}
fn storage_base_near_2_251(k: u8) -> felt252 {
    let x: felt252 = 0x800000000000000000000000000000000000000000000000000000000000000 + k.into() - 128;
    let b = storage_base_address_from_felt252(x);
    storage_address_from_base_and_offset(b, k).into()
}
