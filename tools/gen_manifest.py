#!/usr/bin/env python3
"""Regenerates /verif/MANIFEST.json (kept in one place so that it is always schema-valid)."""
import json, os, subprocess
ROOT = os.path.dirname(os.path.dirname(os.path.abspath(__file__)))
NA = {
"C01":"pure function of (program, input): differential test against a reference evaluator; no schedule, fault, clock or history for a simulator to own",
"C02":"pure in (program, input, gas) with honest hints; the dishonest-prover half is C03",
"C04":"inequality over one deterministic execution per (program, input, gas, solver); nothing to schedule or fault",
"C05":"metamorphic over optimisation configurations, each run a pure function",
"C06":"exactness of arithmetic on every operand: input enumeration against bignum arithmetic, no nondeterminism",
"C07":"differential between two pure evaluators (compile-time vs run-time)",
"C08":"agreement of two pure static analyses over generated programs",
"C09":"front-end totality on arbitrary text: robustness fuzzing of a pure function",
"C10":"round-trip identity on one input string",
"C11":"algebraic identity of the formatter on one input x configuration",
"C14":"one-shot untrusted input to a pure decode/validate/compile function: mutational fuzzing, not simulation",
"C15":"comparison of two static checkers on one program",
"C16":"enumeration of instruction shapes through a pure encoder and one VM step",
"C17":"trace inspection of deterministic executions",
"C18":"serialisation round-trip identities on one program",
"C19":"structural invariants of one pure compilation (parallel contract compilation is covered as a schedule under C12)",
"C20":"differential between two pure pipelines; the cache blob is an input",
}
CHECKS = {
"C03": dict(
  engine="simhint",
  level_claimed=dict(category="fault_enumeration",
    text="Deterministic simulation of a dishonest prover: the real compiler output runs on the real cairo-vm with the real hint processor, wrapped by a simulated prover that reports wrong values for chosen hint occurrences. Quick enumerates every single fault (hint occurrence x output cell x lie strategy, including algebraic lies that keep the asserted field equation true and wrap-around solutions) over a catalogue of one function per hinted libfunc/type (plus the repository's examples and PRNG-generated bounded-int div_rem / downcast / constrain instantiations, whose CASM depends on the type ranges) with boundary inputs and tight gas budgets, plus seeded 2-3-fault sequences; thorough adds seeded random inputs, 800 generated instantiations and more multi-fault plans, time-boxed. Oracle: a run with a lie is either rejected by the VM or equals the honest result (value and gas). Sampling of inputs; exhaustive only over the single-fault space of the explored (function, input) pairs.",
    design_ref="DESIGN.md section 4"),
  level_note="Trusted: cairo-vm as judge of invalid executions; the honest hint code as reference; entry code in the runner's testing configuration. Later hints are honest relative to the state the lie produced. Functions returning pointers are skipped and listed in the evidence.",
  technique="deterministic simulation with fault injection (seeded/enumerated dishonest-prover hint faults against the real VM)"),
"C12": dict(
  engine="simdb",
  level_claimed=dict(category="exploration",
    text="Deterministic simulation of the build driver and of the thread pool around the real compiler: each run compiles a corpus project (repo examples crate, tests/bug_samples, starknet cairo_level_tests (thorough), 18 local project templates under workloads/projects incl. Starknet contracts/components, executables, circuits, user macros, two-crate and non-compiling projects) through the real entry points after a PRNG history prefix of unrelated queries (module diagnostics, lowering, Sierra of other function subsets, queries on dropped snapshots, edit-then-exact-revert, corelib first, modules reached through their parent only), under a drawn hash seed (H2 seam) and a simulated worker count in {1,2,3,4,8,16}. Level 1 (plain salsa): the H1 seam hands every rayon task to an executor that runs the tasks of each batch atomically in a PRNG order. Level 2 (salsa built with its shuttle feature): tasks run on a simulated worker pool of shuttle threads and shuttle's seeded random/PCT scheduler decides every interleaving at salsa's synchronisation points (query claims, blocking, interning) and, in two fifths of the plans, at PRNG-chosen allocations armed from query-execution events (preemption seam). Every run of both levels executes in its own child process. Oracle: id-normalised Sierra (debug names and canonical ids), annotations, CASM text, diagnostics, contract-class and CASM-contract-class JSON byte-identical to the plainest execution. Seeded search over schedules and histories; violations are minimised (prefix ddmin, fewer workers) and replayed in a fresh process.",
    design_ref="DESIGN.md section 5"),
  level_note="Level 2 interleaves only at salsa's synchronisation points (shuttle models SeqCst); level 1 tasks are atomic. Rayon's work-stealing is replaced by a simpler pool with the same task set. Raw (unreplaced) interned ids are expected to differ and are used as the reach measure; annotation maps keyed by raw ids are re-keyed by debug name before comparison. Four kinds of genuine defect of the pinned tree are listed in known_findings.json (definition-cycle diagnostics; SCC representative by intern id; impl candidate order by intern id; plain query on a recoverable cycle) and re-executed from five committed replay files on every run.",
  technique="deterministic simulation with fault injection (seeded task-order / shuttle schedules and query-history prefixes on the real salsa database)"),
"C13": dict(
  engine="simdb",
  level_claimed=dict(category="exploration",
    text="Deterministic simulation of an editor session against one long-lived RootDatabase: PRNG-generated histories (<=12 steps quick, <=30 thorough) of override edits of 28 kinds (trivia, attribute and event-kind changes, member/variant additions, whitespace shifts inside macro calls, renames, item/statement insertion, deletion, duplication and moves, syntax-breaking and repairing edits, torn writes), override unset, disk faults under an override (save, torn save, delete, restore), partial queries and queries on snapshots in between, queries cancelled at the k-th executed query, and task-permuted parallel warm-up. After the checked steps the observable (diagnostics with line/column, Sierra with debug-name ids, for Starknet projects ABI and entry points of every contract class, item-location map through stable pointers) must equal that of a fresh database on the same disk contents and overrides; one history in four ends by comparing the in-process fresh database with a fresh database in a new process; syntax-tree text/span invariants are checked on sampled nodes. Failures are delta-debugged to a minimal history with every candidate evaluated in a new process. Seeded search, not exhaustive.",
    design_ref="DESIGN.md section 6"),
  level_note="Reference model = a fresh compiler instance on the same contents; fresh results memoised by content hash (pure function, see C12). Single-threaded histories. The editor is simulated; project templates are small (18 projects incl. Starknet contracts/components with plugin-generated code, non-compiling projects and cross-module recursion). Differences explained by the listed C12 findings (known_findings.json) are printed as KNOWN-FINDING.",
  technique="deterministic simulation with fault injection (seeded edit/query/cancellation/disk-fault histories vs fresh-database reference model)"),
}
def main():
    hooks_commits = []
    try:
        hooks_commits = [l.split()[0] for l in subprocess.check_output(["git","-C","/repo","log","--format=%H %s"],text=True).splitlines() if " verif-hook:" in l]
    except Exception: pass
    m = {"version":1,
     "setup_cmd":"./check build",
     "hooks":{"guard":"cairo_verif (rustc --cfg)","enable":"/verif/sim/.cargo/config.toml sets rustflags = [\"--cfg\", \"cairo_verif\"] for the harness workspace, whose path dependencies are /repo/crates/*; nothing in /repo enables it","baseline_off_cmd":"cd /repo && cargo nextest run --workspace --no-fail-fast --offline --test-threads 8 || cargo test --workspace --no-fail-fast --offline","source_commits":hooks_commits,"add_only":True},
     "engines":[
       {"name":"simhint","path":"sim/simhint","serves_properties":["C03"],"kind_free_text":"PRNG/enumeration-driven dishonest prover wrapped around CairoHintProcessor; real compiler, real cairo-vm"},
       {"name":"simdb","path":"sim/simdb","serves_properties":["C13","C12"],"kind_free_text":"history/schedule simulator around one real salsa RootDatabase: simulated editor, disk faults, cancellation via tracing seam, H1 task executor, H2 hash seed"},
     ],
     "checks":[],
     "notes":"Technique family: deterministic simulation with fault injection. See DESIGN.md; 17 properties are pure functions of their input and are listed as not applicable.",
     "not_applicable":[{"property_id":k,"reason":v} for k,v in NA.items() if k not in CHECKS]}
    for pid,c in CHECKS.items():
        m["checks"].append({"property_id":pid,"quick_cmd":f"./check {pid} quick","thorough_cmd":f"./check {pid} thorough",
          "evidence_file":f"/verif/evidence/{pid}.json","replay_cmd_template":f"./check {pid} --replay {{path}}", **c})
    for e in EXTRA_ENGINES: m["engines"].append(e)
    json.dump(m,open(os.path.join(ROOT,"MANIFEST.json"),"w"),indent=1)
EXTRA_ENGINES=[]
if __name__=="__main__": main()
