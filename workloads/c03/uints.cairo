// Unsigned integer arithmetic: one function per hinted libfunc and operand type.

use core::num::traits::{OverflowingAdd, OverflowingSub, OverflowingMul, WrappingAdd, WrappingSub, WrappingMul, CheckedAdd, CheckedSub, CheckedMul, Sqrt, WideMul};

fn add_u8(a: u8, b: u8) -> u8 { a + b }
fn sub_u8(a: u8, b: u8) -> u8 { a - b }
fn mul_u8(a: u8, b: u8) -> u8 { a * b }
fn div_u8(a: u8, b: NonZero<u8>) -> u8 { let (q, _r) = DivRem::div_rem(a, b); q }
fn rem_u8(a: u8, b: NonZero<u8>) -> u8 { let (_q, r) = DivRem::div_rem(a, b); r }
fn divrem_u8(a: u8, b: NonZero<u8>) -> (u8, u8) { DivRem::div_rem(a, b) }
fn lt_u8(a: u8, b: u8) -> bool { a < b }
fn le_u8(a: u8, b: u8) -> bool { a <= b }
fn oadd_u8(a: u8, b: u8) -> (u8, bool) { a.overflowing_add(b) }
fn osub_u8(a: u8, b: u8) -> (u8, bool) { a.overflowing_sub(b) }
fn omul_u8(a: u8, b: u8) -> (u8, bool) { a.overflowing_mul(b) }
fn wadd_u8(a: u8, b: u8) -> u8 { a.wrapping_add(b) }
fn wsub_u8(a: u8, b: u8) -> u8 { a.wrapping_sub(b) }
fn wmul_u8(a: u8, b: u8) -> u8 { a.wrapping_mul(b) }
fn cadd_u8(a: u8, b: u8) -> Option<u8> { a.checked_add(b) }
fn csub_u8(a: u8, b: u8) -> Option<u8> { a.checked_sub(b) }
fn cmul_u8(a: u8, b: u8) -> Option<u8> { a.checked_mul(b) }
fn sqrt_u8(a: u8) -> felt252 { a.sqrt().into() }
fn widemul_u8(a: u8, b: u8) -> felt252 { let w = a.wide_mul(b); w.try_into().unwrap_or(7) }

fn add_u16(a: u16, b: u16) -> u16 { a + b }
fn sub_u16(a: u16, b: u16) -> u16 { a - b }
fn mul_u16(a: u16, b: u16) -> u16 { a * b }
fn div_u16(a: u16, b: NonZero<u16>) -> u16 { let (q, _r) = DivRem::div_rem(a, b); q }
fn rem_u16(a: u16, b: NonZero<u16>) -> u16 { let (_q, r) = DivRem::div_rem(a, b); r }
fn divrem_u16(a: u16, b: NonZero<u16>) -> (u16, u16) { DivRem::div_rem(a, b) }
fn lt_u16(a: u16, b: u16) -> bool { a < b }
fn le_u16(a: u16, b: u16) -> bool { a <= b }
fn oadd_u16(a: u16, b: u16) -> (u16, bool) { a.overflowing_add(b) }
fn osub_u16(a: u16, b: u16) -> (u16, bool) { a.overflowing_sub(b) }
fn omul_u16(a: u16, b: u16) -> (u16, bool) { a.overflowing_mul(b) }
fn wadd_u16(a: u16, b: u16) -> u16 { a.wrapping_add(b) }
fn wsub_u16(a: u16, b: u16) -> u16 { a.wrapping_sub(b) }
fn wmul_u16(a: u16, b: u16) -> u16 { a.wrapping_mul(b) }
fn cadd_u16(a: u16, b: u16) -> Option<u16> { a.checked_add(b) }
fn csub_u16(a: u16, b: u16) -> Option<u16> { a.checked_sub(b) }
fn cmul_u16(a: u16, b: u16) -> Option<u16> { a.checked_mul(b) }
fn sqrt_u16(a: u16) -> felt252 { a.sqrt().into() }
fn widemul_u16(a: u16, b: u16) -> felt252 { let w = a.wide_mul(b); w.try_into().unwrap_or(7) }

fn add_u32(a: u32, b: u32) -> u32 { a + b }
fn sub_u32(a: u32, b: u32) -> u32 { a - b }
fn mul_u32(a: u32, b: u32) -> u32 { a * b }
fn div_u32(a: u32, b: NonZero<u32>) -> u32 { let (q, _r) = DivRem::div_rem(a, b); q }
fn rem_u32(a: u32, b: NonZero<u32>) -> u32 { let (_q, r) = DivRem::div_rem(a, b); r }
fn divrem_u32(a: u32, b: NonZero<u32>) -> (u32, u32) { DivRem::div_rem(a, b) }
fn lt_u32(a: u32, b: u32) -> bool { a < b }
fn le_u32(a: u32, b: u32) -> bool { a <= b }
fn oadd_u32(a: u32, b: u32) -> (u32, bool) { a.overflowing_add(b) }
fn osub_u32(a: u32, b: u32) -> (u32, bool) { a.overflowing_sub(b) }
fn omul_u32(a: u32, b: u32) -> (u32, bool) { a.overflowing_mul(b) }
fn wadd_u32(a: u32, b: u32) -> u32 { a.wrapping_add(b) }
fn wsub_u32(a: u32, b: u32) -> u32 { a.wrapping_sub(b) }
fn wmul_u32(a: u32, b: u32) -> u32 { a.wrapping_mul(b) }
fn cadd_u32(a: u32, b: u32) -> Option<u32> { a.checked_add(b) }
fn csub_u32(a: u32, b: u32) -> Option<u32> { a.checked_sub(b) }
fn cmul_u32(a: u32, b: u32) -> Option<u32> { a.checked_mul(b) }
fn sqrt_u32(a: u32) -> felt252 { a.sqrt().into() }
fn widemul_u32(a: u32, b: u32) -> felt252 { let w = a.wide_mul(b); w.try_into().unwrap_or(7) }

fn add_u64(a: u64, b: u64) -> u64 { a + b }
fn sub_u64(a: u64, b: u64) -> u64 { a - b }
fn mul_u64(a: u64, b: u64) -> u64 { a * b }
fn div_u64(a: u64, b: NonZero<u64>) -> u64 { let (q, _r) = DivRem::div_rem(a, b); q }
fn rem_u64(a: u64, b: NonZero<u64>) -> u64 { let (_q, r) = DivRem::div_rem(a, b); r }
fn divrem_u64(a: u64, b: NonZero<u64>) -> (u64, u64) { DivRem::div_rem(a, b) }
fn lt_u64(a: u64, b: u64) -> bool { a < b }
fn le_u64(a: u64, b: u64) -> bool { a <= b }
fn oadd_u64(a: u64, b: u64) -> (u64, bool) { a.overflowing_add(b) }
fn osub_u64(a: u64, b: u64) -> (u64, bool) { a.overflowing_sub(b) }
fn omul_u64(a: u64, b: u64) -> (u64, bool) { a.overflowing_mul(b) }
fn wadd_u64(a: u64, b: u64) -> u64 { a.wrapping_add(b) }
fn wsub_u64(a: u64, b: u64) -> u64 { a.wrapping_sub(b) }
fn wmul_u64(a: u64, b: u64) -> u64 { a.wrapping_mul(b) }
fn cadd_u64(a: u64, b: u64) -> Option<u64> { a.checked_add(b) }
fn csub_u64(a: u64, b: u64) -> Option<u64> { a.checked_sub(b) }
fn cmul_u64(a: u64, b: u64) -> Option<u64> { a.checked_mul(b) }
fn sqrt_u64(a: u64) -> felt252 { a.sqrt().into() }
fn widemul_u64(a: u64, b: u64) -> felt252 { let w = a.wide_mul(b); w.try_into().unwrap_or(7) }

fn add_u128(a: u128, b: u128) -> u128 { a + b }
fn sub_u128(a: u128, b: u128) -> u128 { a - b }
fn mul_u128(a: u128, b: u128) -> u128 { a * b }
fn div_u128(a: u128, b: NonZero<u128>) -> u128 { let (q, _r) = DivRem::div_rem(a, b); q }
fn rem_u128(a: u128, b: NonZero<u128>) -> u128 { let (_q, r) = DivRem::div_rem(a, b); r }
fn divrem_u128(a: u128, b: NonZero<u128>) -> (u128, u128) { DivRem::div_rem(a, b) }
fn lt_u128(a: u128, b: u128) -> bool { a < b }
fn le_u128(a: u128, b: u128) -> bool { a <= b }
fn oadd_u128(a: u128, b: u128) -> (u128, bool) { a.overflowing_add(b) }
fn osub_u128(a: u128, b: u128) -> (u128, bool) { a.overflowing_sub(b) }
fn omul_u128(a: u128, b: u128) -> (u128, bool) { a.overflowing_mul(b) }
fn wadd_u128(a: u128, b: u128) -> u128 { a.wrapping_add(b) }
fn wsub_u128(a: u128, b: u128) -> u128 { a.wrapping_sub(b) }
fn wmul_u128(a: u128, b: u128) -> u128 { a.wrapping_mul(b) }
fn cadd_u128(a: u128, b: u128) -> Option<u128> { a.checked_add(b) }
fn csub_u128(a: u128, b: u128) -> Option<u128> { a.checked_sub(b) }
fn cmul_u128(a: u128, b: u128) -> Option<u128> { a.checked_mul(b) }
fn sqrt_u128(a: u128) -> felt252 { a.sqrt().into() }
fn widemul_u128(a: u128, b: u128) -> u256 { a.wide_mul(b) }

