compile_error!(3 + 4);

compile_error!("a plain message");

fn after_the_errors(x: u8) -> u8 {
    x
}

compile_error!(   after_the_errors(1),  2);
