use std::path::PathBuf;
use cairo_lang_compiler::db::RootDatabase;
use cairo_lang_compiler::diagnostics::DiagnosticsReporter;
use cairo_lang_compiler::project::setup_project;
use cairo_lang_filesystem::db::{init_dev_corelib, FilesGroup};
use cairo_lang_filesystem::ids::{CrateInput, FileLongId};
use cairo_lang_filesystem::override_file_content;
use cairo_lang_utils::Intern;
use salsa::Database;

fn diags(db: &RootDatabase, main: &[CrateInput]) -> String {
    let mut d = String::new();
    DiagnosticsReporter::write_to_string(&mut d).with_crates(main).check(db);
    d
}
fn set(db: &mut RootDatabase, p: &PathBuf, c: Option<String>) {
    let dbm: &mut dyn Database = db;
    let file_id = FileLongId::OnDisk(p.clone()).intern(dbm);
    override_file_content!(dbm, file_id, c.map(|c| c.into()));
}
fn fresh(p: &PathBuf) -> String {
    let mut db = RootDatabase::builder().build().unwrap();
    init_dev_corelib(&mut db, PathBuf::from("/repo/corelib/src"));
    let main = setup_project(&mut db, p).unwrap();
    diags(&db, &main)
}
fn main() {
    let dir = PathBuf::from("/work/spike2/scratch"); std::fs::create_dir_all(&dir).unwrap();
    let p = dir.join("lib.cairo");
    std::fs::write(&p, "fn f() -> u8 { 1 }\n").unwrap();
    let mut db = RootDatabase::builder().build().unwrap();
    init_dev_corelib(&mut db, PathBuf::from("/repo/corelib/src"));
    let main = setup_project(&mut db, &p).unwrap();
    println!("1 disk A: inc={:?}", diags(&db, &main));
    set(&mut db, &p, Some("fn f() -> u8 { 300 }\n".into()));
    println!("2 override B: inc={:?}", diags(&db, &main).lines().next());
    std::fs::write(&p, "fn f() -> u8 { 1 }\n\nfn g() -> u8 { 400 }\n").unwrap(); // editor saves C to disk
    set(&mut db, &p, None);
    let inc = diags(&db, &main);
    let fr = fresh(&p);
    println!("3 unset after disk save C: equal={} \n inc={inc:?}\n fresh={fr:?}", inc == fr);
}
