pub mod kinds;
pub mod quota;
pub mod tariff;
pub mod api;
pub mod parts;
pub mod market;
pub mod ledger;
pub mod glue;
