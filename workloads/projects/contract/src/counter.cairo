#[starknet::interface]
pub trait ICounter<TState> {
    fn get(self: @TState) -> u64;
    fn increase(ref self: TState, by: u64);
}

#[starknet::contract]
pub mod counter {
    use starknet::storage::{StoragePointerReadAccess, StoragePointerWriteAccess};

    #[storage]
    struct Storage {
        value: u64,
        owner: felt252,
    }

    #[event]
    #[derive(Drop, starknet::Event)]
    pub enum Event {
        Increased: Increased,
    }

    #[derive(Drop, starknet::Event)]
    pub struct Increased {
        pub by: u64,
    }

    #[constructor]
    fn constructor(ref self: ContractState, owner: felt252) {
        self.owner.write(owner);
    }

    #[abi(embed_v0)]
    impl CounterImpl of super::ICounter<ContractState> {
        fn get(self: @ContractState) -> u64 {
            self.value.read()
        }
        fn increase(ref self: ContractState, by: u64) {
            let current = self.value.read();
            self.value.write(super::super::helper(current) + by - 1);
            self.emit(Increased { by });
        }
    }
}
