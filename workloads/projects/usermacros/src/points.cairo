#[derive(Copy, Drop)]
pub struct Pt { pub x: u32, pub y: u32 }

#[derive(Copy, Drop)]
pub struct Hidden { pub shown: u8, secret: u8 }

pub fn origin() -> Pt {
    Pt { x: 0, y: 0 }
}

pub fn make_hidden() -> Hidden {
    Hidden { shown: 1, secret: 2 }
}
