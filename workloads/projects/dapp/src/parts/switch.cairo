#[starknet::component]
pub mod switch_part {
    use starknet::storage::{StoragePointerReadAccess, StoragePointerWriteAccess};
    use crate::api::ISwitch;
    use crate::kinds::Mode;

    #[storage]
    pub struct Storage {
        pub mode: Mode,
        // Same name as in `guard_part` and `counter_part`: a path collision warning in contracts
        // that embed more than one of them.
        pub nonce: u64,
    }

    #[event]
    #[derive(Drop, starknet::Event)]
    pub enum Event {
        Switched: Switched,
        Refused: Refused,
    }

    #[derive(Drop, starknet::Event)]
    pub struct Switched {
        pub mode: Mode,
    }

    #[derive(Drop, starknet::Event)]
    pub struct Refused {
        pub mode: Mode,
        pub nonce: u64,
    }

    #[embeddable_as(SwitchImpl)]
    pub impl Switch<TContractState, +HasComponent<TContractState>> of ISwitch<ComponentState<TContractState>> {
        fn mode(self: @ComponentState<TContractState>) -> Mode {
            self.mode.read()
        }
        fn set_mode(ref self: ComponentState<TContractState>, mode: Mode) {
            let nonce = self.nonce.read();
            if self.mode.read() == mode {
                self.emit(Refused { mode, nonce });
            } else {
                self.mode.write(mode);
                self.nonce.write(nonce + 1);
                self.emit(Switched { mode });
            }
        }
    }

    #[generate_trait]
    pub impl SwitchInternal<TContractState, +HasComponent<TContractState>> of SwitchInternalTrait<TContractState> {
        fn require_open(self: @ComponentState<TContractState>) {
            assert(self.mode.read() == Mode::Open, 'not open');
        }
    }
}
