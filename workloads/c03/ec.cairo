// EC libfuncs: FieldSqrt (ec_point_from_x_nz), RandomEcPoint + AllocConstantSize (ec_state_init).
use core::ec::{EcPoint, EcPointTrait, EcStateTrait, NonZeroEcPoint};

fn from_x(x: felt252) -> felt252 {
    match EcPointTrait::new_nz_from_x(x) {
        Some(p) => { let (px, py) = p.coordinates(); px * 3 + py },
        None => 1,
    }
}
fn gen_mul(m: felt252) -> felt252 {
    let g = EcPointTrait::new_nz_from_x(1).unwrap();
    let mut s = EcStateTrait::init();
    s.add_mul(m, g);
    match s.finalize_nz() {
        Some(p) => { let (px, py) = p.coordinates(); px + py * 7 },
        None => 2,
    }
}
fn state_add(x: felt252, m: felt252) -> felt252 {
    let Some(p) = EcPointTrait::new_nz_from_x(x) else { return 1; };
    let mut s = EcStateTrait::init();
    s.add(p);
    s.add_mul(m, p);
    match s.finalize_nz() {
        Some(q) => { let (px, py) = q.coordinates(); px + py * 7 },
        None => 2,
    }
}
fn empty_state() -> felt252 {
    let s = EcStateTrait::init();
    match s.finalize_nz() { Some(_) => 3, None => 4 }
}
fn add_then_sub(x: felt252) -> felt252 {
    let Some(p) = EcPointTrait::new_nz_from_x(x) else { return 1; };
    let mut s = EcStateTrait::init();
    s.add(p);
    let neg: EcPoint = -p.into();
    match neg.try_into() {
        Some(n) => { s.add(n); },
        None => {},
    }
    match s.finalize_nz() { Some(_) => 5, None => 6 }
}
fn point_add(x1: felt252, x2: felt252) -> felt252 {
    let Some(p) = EcPointTrait::new_from_x(x1) else { return 1; };
    let Some(q) = EcPointTrait::new_from_x(x2) else { return 2; };
    let r = p + q;
    match r.try_into() {
        Some(nz) => { let nz: NonZeroEcPoint = nz; let (px, py) = nz.coordinates(); px + py },
        None => 3,
    }
}
