// A type that appears in a signature only: no libfunc mentions it.
pub struct EmptyA {}

pub fn pass_a(e: EmptyA) -> EmptyA {
    e
}
