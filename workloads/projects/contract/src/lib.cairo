mod counter;

fn helper(x: u64) -> u64 {
    x + 1
}
mod second;
