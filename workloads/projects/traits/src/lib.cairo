pub mod shapes;
mod stack;

use shapes::{Area, Circle, Square, total_area};
use stack::{Stack, StackTrait};

pub mod consts {
    pub const PI_TIMES_100: u64 = 314;
    pub const MAX_ITEMS: u32 = 16;
}

fn demo(seed: u64) -> u64 {
    let c = Circle { r: seed % 7 };
    let s = Square { side: seed % 5 };
    let mut st: Stack<u64> = StackTrait::new();
    st.push(c.area());
    st.push(s.area());
    let top = st.pop().unwrap_or(0);
    top + total_area(array![c.area(), s.area()].span())
}

fn apply<F, +Drop<F>, impl func: core::ops::Fn<F, (u64,)>[Output: u64]>(f: F, x: u64) -> u64 {
    f(x)
}

fn closures(x: u64) -> u64 {
    let add = |y: u64| y + 3;
    apply(add, x) * 2
}

#[derive(Drop, Copy, PartialEq, Debug, Serde, Default)]
pub struct Point {
    pub x: u32,
    pub y: u32,
}

impl PointAdd of Add<Point> {
    fn add(lhs: Point, rhs: Point) -> Point {
        Point { x: lhs.x + rhs.x, y: lhs.y + rhs.y }
    }
}

fn points(n: u32) -> Point {
    let mut acc: Point = Default::default();
    let mut i = 0_u32;
    while i != n {
        acc = acc + Point { x: i, y: 1 };
        i += 1;
    }
    acc
}

#[cfg(test)]
mod tests {
    use super::{Point, points};

    #[test]
    fn test_points() {
        assert_eq!(points(3), Point { x: 3, y: 3 });
    }
}
