// A single-file project with a warning, an error candidate and inline macros.
#[derive(Drop, Clone)]
struct Account {
    id: felt252,
    balance: u128,
}

trait Bank<T> {
    fn deposit(ref self: T, amount: u128);
    fn withdraw(ref self: T, amount: u128) -> bool;
}

impl AccountBank of Bank<Account> {
    fn deposit(ref self: Account, amount: u128) {
        self.balance += amount;
    }
    fn withdraw(ref self: Account, amount: u128) -> bool {
        if self.balance < amount {
            return false;
        }
        self.balance -= amount;
        true
    }
}

fn run(seed: felt252) -> u128 {
    let mut acc = Account { id: seed, balance: 100 };
    acc.deposit(50);
    let ok = acc.withdraw(30);
    let spare = 7_u8;
    assert!(ok, "withdraw failed");
    println!("balance {}", acc.balance);
    acc.balance
}

fn total(values: Span<u128>) -> u128 {
    let mut t = 0;
    for v in values {
        t += *v;
    };
    t
}

const SCALE: u128 = 1000;

fn scaled(x: u128) -> u128 {
    x * SCALE
}
