use rayon::iter::{IntoParallelIterator, IntoParallelRefIterator, ParallelIterator};

#[cfg(cairo_verif)]
use shim as rayon;

#[cfg(cairo_verif)]
mod shim {
    pub fn current_num_threads() -> usize { 7 }
    pub fn join<A: FnOnce() -> RA + Send, B: FnOnce() -> RB + Send, RA: Send, RB: Send>(a: A, b: B) -> (RA, RB) {
        let rb = b();
        let ra = a();
        (ra, rb)
    }
    pub mod iter {
        pub struct ParIter<T>(pub Vec<T>);
        pub trait IntoParallelIterator { type Item; fn into_par_iter(self) -> ParIter<Self::Item>; }
        impl<T> IntoParallelIterator for Vec<T> { type Item = T; fn into_par_iter(self) -> ParIter<T> { ParIter(self) } }
        impl<'a, T> IntoParallelIterator for &'a [T] { type Item = &'a T; fn into_par_iter(self) -> ParIter<&'a T> { ParIter(self.iter().collect()) } }
        pub trait IntoParallelRefIterator<'a> { type Item; fn par_iter(&'a self) -> ParIter<Self::Item>; }
        impl<'a, T: 'a> IntoParallelRefIterator<'a> for Vec<T> { type Item = &'a T; fn par_iter(&'a self) -> ParIter<&'a T> { ParIter(self.iter().collect()) } }
        pub trait ParallelIterator: Sized { type Item; fn for_each_with<S: Clone + Send, F: Fn(&mut S, Self::Item) + Sync + Send>(self, init: S, f: F); }
        impl<T> ParallelIterator for ParIter<T> { type Item = T;
            fn for_each_with<S: Clone + Send, F: Fn(&mut S, T) + Sync + Send>(self, init: S, f: F) {
                for it in self.0.into_iter().rev() { let mut s = init.clone(); f(&mut s, it); }
            }
        }
    }
}

fn main() {
    println!("threads {}", rayon::current_num_threads());
    let v = vec![1, 2, 3];
    let (a, b) = rayon::join(|| 1, || 2);
    v.par_iter().for_each_with(10, |s, x| println!("{}", *s + *x));
    let sl: &[i32] = &v;
    sl.into_par_iter().for_each_with(20, |s, x| println!("{}", *s + *x));
    v.into_par_iter().for_each_with(0, |s, x| println!("{}", *s + x));
    println!("{a} {b}");
}
