#[executable]
pub fn main(x: felt252) -> felt252 {
    super::shared(x) + 2
}

fn helper(v: u64) -> u64 {
    v / 3
}
