//! NOT a seeded mutation: a reproduction of a C12 violation on the UNMODIFIED HEAD.
//!
//! Two free functions in two different modules call each other (`ma::ping` <-> `mb::pong`); `ma`
//! is expensive to diagnose, `mb` is trivial. Which of the two gets the `withdraw_gas` depends on
//! which `ConcreteFunctionWithBodyId` was interned first (`lowered_scc_representative` takes the
//! member of the SCC with the minimal salsa id, and the feedback set of a 2-cycle is the node the
//! DFS starts from), and the parallel diagnostics warm-up interns them in a racy order.
//! Observed: threads=1,2,8 identical, threads=4 reproducibly different.
//!
//! Copy to `crates/cairo-lang-compiler/tests/c12_head_mutual_recursion.rs` and run
//! `cargo test --offline -p cairo-lang-compiler --test c12_head_mutual_recursion -- --nocapture`.

use std::fmt::Write as _;
use std::fs;
use std::path::{Path, PathBuf};

use cairo_lang_compiler::db::RootDatabase;
use cairo_lang_compiler::diagnostics::DiagnosticsReporter;
use cairo_lang_compiler::project::setup_project;
use cairo_lang_compiler::{CompilerConfig, compile_prepared_db_program_artifact};
use cairo_lang_filesystem::ids::CrateInput;

/// A module with many mid-sized functions, so that its diagnostics take a while.
fn heavy_module(n_funcs: usize, tail: &str) -> String {
    let mut s = String::new();
    for i in 0..n_funcs {
        writeln!(
            s,
            "pub fn work_{i}(mut a: Array<u128>, x: u128) -> u128 {{
    let mut acc: u128 = x + {i};
    let mut i: u32 = 0;
    while i != 7 {{
        acc = match a.pop_front() {{
            Option::Some(v) => {{ if v > acc {{ v - acc }} else {{ acc - v + {i} }} }},
            Option::None => {{ acc * 3 + {i} }},
        }};
        a.append(acc);
        i += 1;
    }};
    let (q, r) = core::traits::DivRem::div_rem(acc, {d}_u128.try_into().unwrap());
    q + r
}}",
            d = i + 2
        )
        .unwrap();
    }
    s.push_str(tail);
    s
}

fn write_project(root: &Path) {
    let src = root.join("src");
    fs::create_dir_all(&src).unwrap();
    fs::write(root.join("cairo_project.toml"), "[crate_roots]\ndemo = \"src\"\n").unwrap();
    fs::write(src.join("lib.cairo"), "mod ma;\nmod mb;\nmod mc;\nmod md;\n").unwrap();
    fs::write(
        src.join("ma.cairo"),
        heavy_module(
            40,
            "pub fn ping(n: felt252) -> felt252 {
    if n == 0 { 0 } else { super::mb::pong(n - 1) + 1 }
}\n",
        ),
    )
    .unwrap();
    fs::write(
        src.join("mb.cairo"),
        "pub fn pong(n: felt252) -> felt252 {
    if n == 0 { 1 } else { super::ma::ping(n - 1) + 2 }
}\n",
    )
    .unwrap();
    fs::write(src.join("mc.cairo"), heavy_module(6, "")).unwrap();
    fs::write(
        src.join("md.cairo"),
        "pub fn entry(n: felt252) -> felt252 { super::ma::ping(n) + super::mb::pong(n) }\n",
    )
    .unwrap();
}

/// One full compilation on a fresh database; returns the id-normalised output.
fn compile_once(root: &Path) -> String {
    let mut db = RootDatabase::builder().detect_corelib().build().unwrap();
    let main_crate_inputs = setup_project(&mut db, root).unwrap();
    let mut diagnostics = String::new();
    let config = CompilerConfig {
        diagnostics_reporter: DiagnosticsReporter::write_to_string(&mut diagnostics)
            .with_crates(&main_crate_inputs)
            .allow_warnings(),
        replace_ids: true,
        ..CompilerConfig::default()
    };
    let main_crate_ids = CrateInput::into_crate_ids(&db, main_crate_inputs);
    let result = compile_prepared_db_program_artifact(&db, main_crate_ids, config);
    let program = match result {
        Ok(artifact) => artifact.program.to_string(),
        Err(err) => format!("ERROR: {err}"),
    };
    format!("== diagnostics ==\n{diagnostics}\n== program ==\n{program}")
}

fn scratch_dir(name: &str) -> PathBuf {
    let dir = std::env::temp_dir().join(format!("{name}-{}", std::process::id()));
    let _ = fs::remove_dir_all(&dir);
    dir
}

#[test]
fn sierra_is_independent_of_thread_count() {
    let root = scratch_dir("c12-head-mutual-recursion");
    write_project(&root);

    let mut runs: Vec<(usize, usize, String)> = vec![];
    for &n in &[1usize, 2, 4, 8] {
        let pool = rayon::ThreadPoolBuilder::new().num_threads(n).build().unwrap();
        for rep in 0..4 {
            let out = pool.install(|| compile_once(&root));
            runs.push((n, rep, out));
        }
    }
    let _ = fs::remove_dir_all(&root);

    let (_, _, reference) = &runs[0];
    assert!(!reference.contains("ERROR"), "reference run failed:\n{reference}");

    let mut report = String::new();
    let mut n_diff = 0;
    for (n, rep, out) in &runs {
        let same = out == reference;
        writeln!(
            report,
            "threads={n} rep={rep}: {} ({} Sierra lines)",
            if same { "same" } else { "DIFFERENT" },
            out.lines().count(),
        )
        .unwrap();
        n_diff += usize::from(!same);
    }
    println!("{report}");
    assert_eq!(
        n_diff,
        0,
        "C12 violated: {n_diff} of {} runs produced a different Sierra program than the \
         single-threaded reference\n{report}",
        runs.len()
    );
}
