// Felt252Dict: entry/finalize, squash with few and many keys, repeated keys, big keys
// (>= 2^128: assert_le_felt252 arcs path).
use core::dict::{Felt252Dict, Felt252DictEntryTrait, SquashedFelt252DictTrait};

fn two_keys(a: felt252, b: felt252) -> felt252 {
    let mut d: Felt252Dict<felt252> = Default::default();
    d.insert(a, 10);
    d.insert(b, 20);
    d.insert(a, d.get(a) + 5);
    d.get(a) * 1000 + d.get(b)
}
fn read_default(a: felt252) -> felt252 {
    let mut d: Felt252Dict<u64> = Default::default();
    d.get(a).into() + 3
}
fn many_keys(base: felt252, n: u8) -> felt252 {
    let mut d: Felt252Dict<u128> = Default::default();
    let mut i: u8 = 0;
    while i != n % 9 {
        d.insert(base + i.into() * 0x100000000000000000000000000000001, i.into() + 1);
        i += 1;
    }
    let mut s: felt252 = 0;
    let mut j: u8 = 0;
    while j != n % 9 {
        s = s * 17 + d.get(base + j.into() * 0x100000000000000000000000000000001).into();
        j += 1;
    }
    s
}
fn repeated_key(k: felt252, n: u8) -> felt252 {
    let mut d: Felt252Dict<felt252> = Default::default();
    let mut i: u8 = 0;
    while i != n % 7 {
        let v = d.get(k);
        d.insert(k, v * 2 + 1);
        i += 1;
    }
    d.get(k)
}
fn entry_api(k: felt252, v: u32) -> felt252 {
    let mut d: Felt252Dict<u32> = Default::default();
    let (e, prev) = d.entry(k);
    let mut d = e.finalize(prev + v);
    let (e, prev2) = d.entry(k);
    let mut d = e.finalize(prev2 / 2);
    d.get(k).into()
}
fn two_dicts(a: felt252, b: felt252) -> felt252 {
    let mut d1: Felt252Dict<felt252> = Default::default();
    let mut d2: Felt252Dict<felt252> = Default::default();
    d1.insert(a, 1);
    d2.insert(a, 2);
    d1.insert(b, 3);
    d2.insert(b + 1, 4);
    d1.get(a) + 10 * d2.get(a) + 100 * d1.get(b) + 1000 * d2.get(b)
}
fn explicit_squash(a: felt252, b: felt252) -> felt252 {
    let mut d: Felt252Dict<felt252> = Default::default();
    d.insert(a, 7);
    d.insert(b, 8);
    d.insert(a, 9);
    let sq = d.squash();
    let mut entries = sq.into_entries();
    let mut s: felt252 = 0;
    loop {
        match entries.pop_front() {
            Some((k, first, last)) => { s = s * 31 + k + first * 3 + last * 5; },
            None => { break; },
        }
    }
    s
}
fn dict_panic_path(a: felt252, x: u8) -> felt252 {
    let mut d: Felt252Dict<felt252> = Default::default();
    d.insert(a, 10);
    let y: u8 = x + 250;
    d.insert(a + 1, y.into());
    d.get(a) + d.get(a + 1)
}
fn nullable_dict(a: felt252) -> felt252 {
    let mut d: Felt252Dict<Nullable<u256>> = Default::default();
    d.insert(a, NullableTrait::new(5_u256));
    let v = d.get(a);
    match core::nullable::match_nullable(v) {
        core::nullable::FromNullableResult::Null => 0,
        core::nullable::FromNullableResult::NotNull(b) => b.unbox().low.into(),
    }
}
