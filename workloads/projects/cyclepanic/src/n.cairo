pub fn f() -> felt252 {
    1 + 2
}
