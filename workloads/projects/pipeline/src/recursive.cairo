// Self-referential types: their Sierra type is a cycle breaker whose declaration is read from the
// current definition when the program is assembled.
#[derive(Drop)]
pub enum List {
    Nil,
    Cons: (felt252, Box<List>),
}

#[derive(Drop)]
pub enum Tree {
    Leaf: u32,
    Node: (Box<Tree>, Box<Tree>),
}

pub fn pass(l: List) -> List {
    l
}

pub fn singleton(x: felt252) -> List {
    List::Cons((x, BoxTrait::new(List::Nil)))
}

pub fn head(l: List) -> felt252 {
    match l {
        List::Nil => 0,
        List::Cons((h, _t)) => h,
    }
}

pub fn leaf_or_zero(t: Tree) -> u32 {
    match t {
        Tree::Leaf(v) => v,
        Tree::Node(_) => 0,
    }
}

// Recursive types that are only handed through: their definition can change without breaking any
// other code.
pub enum Chain {
    End,
    Link: (felt252, Box<Chain>),
}

pub fn pass_chain(c: Chain) -> Chain {
    c
}

pub enum Rose {
    Tip: u8,
    Branch: (u16, Box<Rose>, Box<Rose>),
}

pub fn pass_rose(r: Rose) -> Rose {
    r
}
