use super::dtypes::DB;

pub fn only_b(b: DB) -> felt252 {
    2
}
