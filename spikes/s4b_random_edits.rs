use std::path::PathBuf;
use std::collections::BTreeMap;
use cairo_lang_compiler::db::RootDatabase;
use cairo_lang_compiler::diagnostics::DiagnosticsReporter;
use cairo_lang_compiler::project::setup_project;
use cairo_lang_compiler::{CompilerConfig, compile_prepared_db_program};
use cairo_lang_filesystem::db::{init_dev_corelib, FilesGroup};
use cairo_lang_filesystem::ids::{CrateInput, FileLongId};
use cairo_lang_filesystem::override_file_content;
use cairo_lang_utils::Intern;
use salsa::Database;

fn lcg(s: &mut u64) -> u64 { *s = s.wrapping_mul(6364136223846793005).wrapping_add(1442695040888963407); *s >> 33 }

fn observe(db: &RootDatabase, main: &[CrateInput]) -> String {
    let r = std::panic::catch_unwind(std::panic::AssertUnwindSafe(|| {
        let mut diags = String::new();
        let cfg = CompilerConfig { replace_ids: true, diagnostics_reporter: DiagnosticsReporter::write_to_string(&mut diags).with_crates(main), ..Default::default() };
        let ids = CrateInput::into_crate_ids(db, main.to_vec());
        let prog = compile_prepared_db_program(db, ids, cfg);
        match prog { Ok(p) => format!("OK\n{diags}\n{p}"), Err(e) => format!("ERR {e}\n{diags}") }
    }));
    r.unwrap_or_else(|e| format!("PANIC {:?}", e.downcast_ref::<String>().cloned().or(e.downcast_ref::<&str>().map(|s| s.to_string()))))
}

fn mk(root: &PathBuf, files: &BTreeMap<PathBuf, String>) -> (RootDatabase, Vec<CrateInput>) {
    let mut db = RootDatabase::builder().build().unwrap();
    init_dev_corelib(&mut db, PathBuf::from("/repo/corelib/src"));
    let main = setup_project(&mut db, root).unwrap();
    for (p, c) in files { set(&mut db, p, Some(c.clone())); }
    (db, main)
}
fn set(db: &mut RootDatabase, p: &PathBuf, c: Option<String>) {
    let dbm: &mut dyn Database = db;
    let file_id = FileLongId::OnDisk(p.clone()).intern(dbm);
    override_file_content!(dbm, file_id, c.map(|c| c.into()));
}

fn mutate(s: &str, r: &mut u64) -> String {
    let lines: Vec<&str> = s.lines().collect();
    if lines.is_empty() { return "fn f() {}\n".into(); }
    let i = (lcg(r) as usize) % lines.len();
    let mut out: Vec<String> = lines.iter().map(|l| l.to_string()).collect();
    match lcg(r) % 9 {
        0 => { out.insert(i, "// comment".into()); }
        1 => { out.remove(i); }
        2 => { let l = out[i].clone(); out.insert(i, l); }
        3 => { let j = (lcg(r) as usize) % lines.len(); out.swap(i, j); }
        4 => { let cut = (lcg(r) as usize) % (s.len() + 1); let mut c = cut; while !s.is_char_boundary(c) { c -= 1; } return s[..c].to_string(); }
        5 => { out[i] = out[i].replacen("a", "aa", 1); }
        6 => { out[i] = out[i].replacen(['{', '(', ';', ')', '}'], "", 1); }
        7 => { out.insert(i, "    let _zz = 5_u8 + 300;".into()); }
        _ => { out[i] = format!("  {}  ", out[i]); }
    }
    out.join("\n") + "\n"
}

fn main() {
    std::panic::set_hook(Box::new(|_| {}));
    let root = PathBuf::from(std::env::args().nth(1).unwrap());
    let seed: u64 = std::env::args().nth(2).unwrap().parse().unwrap();
    let steps: usize = std::env::args().nth(3).unwrap().parse().unwrap();
    let mut orig = BTreeMap::new();
    for e in std::fs::read_dir(&root).unwrap() { let p = e.unwrap().path(); if p.extension().map(|x| x == "cairo").unwrap_or(false) { orig.insert(p.clone(), std::fs::read_to_string(&p).unwrap()); } }
    let names: Vec<PathBuf> = orig.keys().cloned().collect();
    let mut r = seed;
    let (mut db, main) = mk(&root, &BTreeMap::new());
    let _ = observe(&db, &main);
    let mut cur: BTreeMap<PathBuf, String> = BTreeMap::new();
    let mut mism = 0;
    for step in 0..steps {
        let f = &names[(lcg(&mut r) as usize) % names.len()];
        let op = lcg(&mut r) % 6;
        if op == 0 { cur.remove(f); set(&mut db, f, None); }
        else if op == 1 { cur.insert(f.clone(), orig[f].clone()); set(&mut db, f, Some(orig[f].clone())); }
        else { let base = cur.get(f).unwrap_or(&orig[f]).clone(); let n = mutate(&base, &mut r); cur.insert(f.clone(), n.clone()); set(&mut db, f, Some(n)); }
        if lcg(&mut r) % 3 == 0 { continue; } // sometimes skip querying between edits
        let inc = observe(&db, &main);
        let (fdb, fmain) = mk(&root, &cur);
        let fr = observe(&fdb, &fmain);
        if inc != fr {
            mism += 1;
            println!("MISMATCH seed {seed} step {step} file {f:?} op {op}");
            let a: Vec<&str> = inc.lines().collect(); let b: Vec<&str> = fr.lines().collect();
            for k in 0..a.len().max(b.len()) { if a.get(k) != b.get(k) { println!("  first diff line {k}:\n   inc: {:?}\n   fresh: {:?}", a.get(k), b.get(k)); break; } }
        }
        if inc.starts_with("PANIC") || fr.starts_with("PANIC") { println!("PANIC seed {seed} step {step}: inc={} fresh={}", &inc[..inc.len().min(200)], &fr[..fr.len().min(200)]); }
    }
    println!("seed {seed} done: {mism} mismatches");
}
