mod points;

// User-defined macros: item-level expansions become modules of generated code.
macro define_fn {
    ($name:ident) => {
        expose! {
            fn $name() -> felt252 {
                100
            }
        }
    };
}

macro define_bad {
    ($name:ident) => {
        expose! {
            fn $name() -> felt252 {
                100_u8
            }
        }
    };
}

macro add_three {
    ($x:expr) => {
        $x + 3
    };
}

define_fn!(first);
define_fn!(second);
define_bad!(third);

fn main() -> felt252 {
    let p = points::Pt { x: 1, y: 2 };
    first() + second() + add_three!(4) + p.x.into() + points::origin().y.into()
}
