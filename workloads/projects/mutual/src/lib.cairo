// Recursion across module boundaries: the functions of a recursion cycle live in different
// modules, so which of them is analysed (and interned) first depends on module order, warm-up
// schedule and query history.
mod ma;
mod mb;
mod mc;
mod md;

fn main() -> felt252 {
    md::entry(5) + mc::tri_a(4)
}
