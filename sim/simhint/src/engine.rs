//! Running one (program, function, args, gas, fault plan) scenario and judging it.

use std::panic::AssertUnwindSafe;

use cairo_lang_runnable_utils::builder::{EntryCodeConfig, RunnableBuilder};
use cairo_lang_runner::casm_run::StarknetState;
use cairo_lang_runner::{RunResultValue, SierraCasmRunner};
use cairo_lang_sierra::program::{Function, GenStatement, Program};
use serde_json::{Value, json};

use crate::prover::{AppliedLie, Fault, FaultyProver, OccLog};
use crate::types::{RetTy, Ty, TypeTable, Val};

/// A compiled function ready to be run many times.
pub struct Target {
    pub name: String,
    pub source_file: String,
    pub program: Program,
    pub runner: SierraCasmRunner,
    pub func: Function,
    pub params: Vec<Ty>,
    pub supported: Result<(), String>,
    /// Decoder of the result when it holds pointers (arrays, boxes); `None` = compare raw felts.
    pub ret_decoder: Option<RetTy>,
    /// pc (absolute, in the assembled program) -> generic libfunc name, for hint sites.
    pub header_len: usize,
    stmt_offsets: Vec<(usize, usize, String)>,
    pub initial_required_gas: usize,
}

#[derive(Clone, Debug, PartialEq, Eq)]
pub enum Outcome {
    /// The VM run completed; the observable result.
    Ok { value: String, gas: String },
    /// The run is invalid: VM error, hint error, or the honest prover's code could not continue.
    Rejected(String),
    /// The VM run completed but the result could not even be decoded (panic after the run).
    Undecodable(String),
    /// The step budget of the simulation was exhausted: inconclusive.
    Timeout,
}

pub struct RunReport {
    pub outcome: Outcome,
    pub log: Vec<OccLog>,
    pub applied: Vec<AppliedLie>,
    pub prover_panicked: bool,
    pub vm_steps: usize,
    /// VM steps executed after the first applied lie (survival depth of the lie).
    pub survived_steps: usize,
}

impl Target {
    pub fn new(name: &str, source_file: &str, program: Program) -> Result<Target, String> {
        let runner = SierraCasmRunner::new(program.clone(), Some(Default::default()), Default::default(), None)
            .map_err(|e| format!("runner: {e}"))?;
        let builder = RunnableBuilder::new(program.clone(), Some(Default::default()))
            .map_err(|e| format!("builder: {e}"))?;
        let func = runner.find_function(&format!("::{name}")).map_err(|e| format!("{e}"))?.clone();
        let tt = TypeTable::new(&program);
        let params: Vec<Ty> = func
            .signature
            .param_types
            .iter()
            .filter(|t| !tt.is_builtin(t))
            .map(|t| tt.ty(t))
            .collect();
        let mut supported = Ok(());
        for (i, p) in params.iter().enumerate() {
            if !p.supported() {
                supported = Err(format!("param {i}: {p:?}"));
            }
        }
        let user_rets: Vec<_> = func.signature.ret_types.iter().filter(|t| !tt.is_builtin(t)).collect();
        if user_rets.len() > 1 {
            supported = Err("more than one user return value".into());
        }
        let mut ret_decoder = None;
        for r in user_rets {
            if !tt.result_pointer_free(r) {
                match tt.result_decoder(r) {
                    Some(d) => ret_decoder = Some(d),
                    None => supported = Err(format!("result type holds a pointer that cannot be dereferenced: {:?}", r.debug_name)),
                }
            }
        }
        let info = builder
            .create_wrapper_info(&func, EntryCodeConfig::testing())
            .map_err(|e| format!("wrapper: {e}"))?;
        let header_len: usize = info.header.iter().map(|i| i.body.op_size()).sum();
        let casm = builder.casm_program();
        let mut stmt_offsets = vec![];
        for (idx, st) in casm.debug_info.sierra_statement_info.iter().enumerate() {
            let name = match program.statements.get(idx) {
                Some(GenStatement::Invocation(inv)) => {
                    let long = program
                        .libfunc_declarations
                        .iter()
                        .find(|d| d.id == inv.libfunc_id)
                        .map(|d| d.long_id.generic_id.0.to_string());
                    long.unwrap_or_else(|| "?".into())
                }
                _ => "return".to_string(),
            };
            stmt_offsets.push((st.start_offset, st.end_offset, name));
        }
        let initial_required_gas = runner.initial_required_gas(&func).unwrap_or(0);
        Ok(Target {
            name: name.to_string(),
            source_file: source_file.to_string(),
            program,
            runner,
            func,
            params,
            supported,
            ret_decoder,
            header_len,
            stmt_offsets,
            initial_required_gas,
        })
    }

    /// The generic libfunc whose CASM contains `pc`.
    pub fn site(&self, pc: usize) -> String {
        if pc < self.header_len {
            return "entry_code".into();
        }
        let off = pc - self.header_len;
        let i = self.stmt_offsets.partition_point(|(s, _, _)| *s <= off);
        if i == 0 {
            return "?".into();
        }
        let (s, e, name) = &self.stmt_offsets[i - 1];
        if off >= *s && off < (*e).max(*s + 1) { name.clone() } else { format!("after:{name}") }
    }

    pub fn run(&self, args: &[Val], gas: Option<usize>, plan: &[Fault], ec_seed: u64, keep_log: bool, max_steps: usize) -> RunReport {
        let args = args.iter().map(|a| a.to_arg()).collect();
        let (hp, ctx) = match self.runner.prepare_starknet_context(&self.func, args, gas, StarknetState::default()) {
            Ok(x) => x,
            Err(e) => {
                return RunReport {
                    outcome: Outcome::Rejected(format!("prepare: {e}")),
                    log: vec![],
                    applied: vec![],
                    prover_panicked: false,
                    vm_steps: 0,
                    survived_steps: 0,
                };
            }
        };
        let mut prover = FaultyProver::new(hp, plan.to_vec(), ec_seed);
        prover.keep_log = keep_log;
        prover.max_steps = max_steps;
        let r = std::panic::catch_unwind(AssertUnwindSafe(|| {
            self.runner.run_function_with_prepared_starknet_context(&self.func, &mut prover, ctx)
        }));
        let (outcome, vm_steps) = match r {
            Ok(Ok(res)) => {
                let value = match &res.value {
                    RunResultValue::Success(v) if self.ret_decoder.is_some() => {
                        let mut s = String::new();
                        match self.ret_decoder.as_ref().unwrap().decode(v, &res.memory, &mut s, 0) {
                            Ok(()) => format!("ok{{{s}}}"),
                            // A successful run whose result is not even a well-formed value.
                            Err(e) => format!("ok-malformed{{{e}}}"),
                        }
                    }
                    RunResultValue::Success(v) => {
                        format!("ok[{}]", v.iter().map(|x| x.to_biguint().to_string()).collect::<Vec<_>>().join(","))
                    }
                    RunResultValue::Panic(v) => {
                        format!("panic[{}]", v.iter().map(|x| x.to_biguint().to_string()).collect::<Vec<_>>().join(","))
                    }
                };
                let gas = res.gas_counter.map(|g| g.to_biguint().to_string()).unwrap_or_else(|| "-".into());
                (Outcome::Ok { value, gas }, res.used_resources.basic_resources.n_steps)
            }
            Ok(Err(e)) => {
                if prover.steps >= prover.max_steps {
                    (Outcome::Timeout, prover.steps)
                } else {
                    let mut s = e.to_string();
                    s.truncate(160);
                    (Outcome::Rejected(s), prover.steps)
                }
            }
            // A panic outside the hint processor: the VM run ended (hints are wrapped by their own
            // catch_unwind) but the result could not be extracted.
            Err(p) => {
                let msg = p
                    .downcast_ref::<String>()
                    .cloned()
                    .or_else(|| p.downcast_ref::<&str>().map(|s| s.to_string()))
                    .unwrap_or_default();
                if prover.prover_panicked {
                    (Outcome::Rejected(format!("prover panic: {msg}")), 0)
                } else {
                    (Outcome::Undecodable(msg), 0)
                }
            }
        };
        let survived_steps = prover.applied.first().map(|l| prover.steps.saturating_sub(l.step)).unwrap_or(0);
        RunReport {
            survived_steps,
            outcome,
            log: std::mem::take(&mut prover.log),
            applied: std::mem::take(&mut prover.applied),
            prover_panicked: prover.prover_panicked,
            vm_steps,
        }
    }
}

/// Judgement of a faulted run against the honest run of the same scenario.
#[derive(Clone, Debug, PartialEq, Eq)]
pub enum Verdict {
    /// No cell was actually changed (strategy not applicable / value equal to the honest one).
    NotInjected,
    Rejected,
    Harmless,
    /// Step budget exhausted after the lie: neither rejected nor completed.
    Inconclusive,
    /// Success with a different observable result: the property is violated.
    Violation(String),
}

pub fn judge(honest: &Outcome, faulted: &RunReport) -> Verdict {
    if faulted.applied.is_empty() {
        return Verdict::NotInjected;
    }
    match (&faulted.outcome, honest) {
        (Outcome::Rejected(_), _) => Verdict::Rejected,
        (Outcome::Timeout, _) => Verdict::Inconclusive,
        (Outcome::Ok { value, gas }, Outcome::Ok { value: hv, gas: hg }) => {
            if value == hv && gas == hg {
                Verdict::Harmless
            } else if value != hv {
                Verdict::Violation(format!("success-with-different-value: honest {hv}, with lie {value}"))
            } else {
                Verdict::Violation(format!("success-with-different-gas: honest {hg}, with lie {gas}"))
            }
        }
        (Outcome::Undecodable(m), _) => Verdict::Violation(format!("success-with-undecodable-result: {m}")),
        (Outcome::Ok { .. }, _) => Verdict::Rejected, // honest run itself did not complete: not a C03 matter
    }
}

pub fn lie_json(l: &AppliedLie, site: &str) -> Value {
    json!({
        "occ": l.occ, "hint": l.kind, "site": site, "pc": l.pc, "vm_step": l.step,
        "strategy": l.strat, "variant": l.variant,
        "cells": l.cells.iter().map(|(i, h, n)| json!({"output": i, "honest": h, "reported": n})).collect::<Vec<_>>(),
    })
}
