#[derive(Drop)]
pub struct Stack<T> {
    items: Array<T>,
}

pub trait StackTrait<T> {
    fn new() -> Stack<T>;
    fn push(ref self: Stack<T>, item: T);
    fn pop(ref self: Stack<T>) -> Option<T>;
    fn len(self: @Stack<T>) -> u32;
}

impl StackImpl<T, +Drop<T>, +Copy<T>> of StackTrait<T> {
    fn new() -> Stack<T> {
        Stack { items: array![] }
    }
    fn push(ref self: Stack<T>, item: T) {
        self.items.append(item);
    }
    fn pop(ref self: Stack<T>) -> Option<T> {
        let n = self.items.len();
        if n == 0 {
            return None;
        }
        let last = *self.items.at(n - 1);
        let mut fresh = array![];
        let mut i = 0;
        while i != n - 1 {
            fresh.append(*self.items.at(i));
            i += 1;
        }
        self.items = fresh;
        Some(last)
    }
    fn len(self: @Stack<T>) -> u32 {
        self.items.len()
    }
}
