// Casts between all integer types and felt252 (upcast / downcast libfuncs).

fn cast_u8_u16(x: u8) -> Option<u16> { x.try_into() }
fn cast_u8_u32(x: u8) -> Option<u32> { x.try_into() }
fn cast_u8_u64(x: u8) -> Option<u64> { x.try_into() }
fn cast_u8_u128(x: u8) -> Option<u128> { x.try_into() }
fn cast_u8_i8(x: u8) -> Option<i8> { x.try_into() }
fn cast_u8_i16(x: u8) -> Option<i16> { x.try_into() }
fn cast_u8_i32(x: u8) -> Option<i32> { x.try_into() }
fn cast_u8_i64(x: u8) -> Option<i64> { x.try_into() }
fn cast_u8_i128(x: u8) -> Option<i128> { x.try_into() }
fn cast_felt252_u8(x: felt252) -> Option<u8> { x.try_into() }
fn cast_u8_felt252(x: u8) -> felt252 { x.into() }

fn cast_u16_u8(x: u16) -> Option<u8> { x.try_into() }
fn cast_u16_u32(x: u16) -> Option<u32> { x.try_into() }
fn cast_u16_u64(x: u16) -> Option<u64> { x.try_into() }
fn cast_u16_u128(x: u16) -> Option<u128> { x.try_into() }
fn cast_u16_i8(x: u16) -> Option<i8> { x.try_into() }
fn cast_u16_i16(x: u16) -> Option<i16> { x.try_into() }
fn cast_u16_i32(x: u16) -> Option<i32> { x.try_into() }
fn cast_u16_i64(x: u16) -> Option<i64> { x.try_into() }
fn cast_u16_i128(x: u16) -> Option<i128> { x.try_into() }
fn cast_felt252_u16(x: felt252) -> Option<u16> { x.try_into() }
fn cast_u16_felt252(x: u16) -> felt252 { x.into() }

fn cast_u32_u8(x: u32) -> Option<u8> { x.try_into() }
fn cast_u32_u16(x: u32) -> Option<u16> { x.try_into() }
fn cast_u32_u64(x: u32) -> Option<u64> { x.try_into() }
fn cast_u32_u128(x: u32) -> Option<u128> { x.try_into() }
fn cast_u32_i8(x: u32) -> Option<i8> { x.try_into() }
fn cast_u32_i16(x: u32) -> Option<i16> { x.try_into() }
fn cast_u32_i32(x: u32) -> Option<i32> { x.try_into() }
fn cast_u32_i64(x: u32) -> Option<i64> { x.try_into() }
fn cast_u32_i128(x: u32) -> Option<i128> { x.try_into() }
fn cast_felt252_u32(x: felt252) -> Option<u32> { x.try_into() }
fn cast_u32_felt252(x: u32) -> felt252 { x.into() }

fn cast_u64_u8(x: u64) -> Option<u8> { x.try_into() }
fn cast_u64_u16(x: u64) -> Option<u16> { x.try_into() }
fn cast_u64_u32(x: u64) -> Option<u32> { x.try_into() }
fn cast_u64_u128(x: u64) -> Option<u128> { x.try_into() }
fn cast_u64_i8(x: u64) -> Option<i8> { x.try_into() }
fn cast_u64_i16(x: u64) -> Option<i16> { x.try_into() }
fn cast_u64_i32(x: u64) -> Option<i32> { x.try_into() }
fn cast_u64_i64(x: u64) -> Option<i64> { x.try_into() }
fn cast_u64_i128(x: u64) -> Option<i128> { x.try_into() }
fn cast_felt252_u64(x: felt252) -> Option<u64> { x.try_into() }
fn cast_u64_felt252(x: u64) -> felt252 { x.into() }

fn cast_u128_u8(x: u128) -> Option<u8> { x.try_into() }
fn cast_u128_u16(x: u128) -> Option<u16> { x.try_into() }
fn cast_u128_u32(x: u128) -> Option<u32> { x.try_into() }
fn cast_u128_u64(x: u128) -> Option<u64> { x.try_into() }
fn cast_u128_i8(x: u128) -> Option<i8> { x.try_into() }
fn cast_u128_i16(x: u128) -> Option<i16> { x.try_into() }
fn cast_u128_i32(x: u128) -> Option<i32> { x.try_into() }
fn cast_u128_i64(x: u128) -> Option<i64> { x.try_into() }
fn cast_u128_i128(x: u128) -> Option<i128> { x.try_into() }
fn cast_felt252_u128(x: felt252) -> Option<u128> { x.try_into() }
fn cast_u128_felt252(x: u128) -> felt252 { x.into() }

fn cast_i8_u8(x: i8) -> Option<u8> { x.try_into() }
fn cast_i8_u16(x: i8) -> Option<u16> { x.try_into() }
fn cast_i8_u32(x: i8) -> Option<u32> { x.try_into() }
fn cast_i8_u64(x: i8) -> Option<u64> { x.try_into() }
fn cast_i8_u128(x: i8) -> Option<u128> { x.try_into() }
fn cast_i8_i16(x: i8) -> Option<i16> { x.try_into() }
fn cast_i8_i32(x: i8) -> Option<i32> { x.try_into() }
fn cast_i8_i64(x: i8) -> Option<i64> { x.try_into() }
fn cast_i8_i128(x: i8) -> Option<i128> { x.try_into() }
fn cast_felt252_i8(x: felt252) -> Option<i8> { x.try_into() }
fn cast_i8_felt252(x: i8) -> felt252 { x.into() }

fn cast_i16_u8(x: i16) -> Option<u8> { x.try_into() }
fn cast_i16_u16(x: i16) -> Option<u16> { x.try_into() }
fn cast_i16_u32(x: i16) -> Option<u32> { x.try_into() }
fn cast_i16_u64(x: i16) -> Option<u64> { x.try_into() }
fn cast_i16_u128(x: i16) -> Option<u128> { x.try_into() }
fn cast_i16_i8(x: i16) -> Option<i8> { x.try_into() }
fn cast_i16_i32(x: i16) -> Option<i32> { x.try_into() }
fn cast_i16_i64(x: i16) -> Option<i64> { x.try_into() }
fn cast_i16_i128(x: i16) -> Option<i128> { x.try_into() }
fn cast_felt252_i16(x: felt252) -> Option<i16> { x.try_into() }
fn cast_i16_felt252(x: i16) -> felt252 { x.into() }

fn cast_i32_u8(x: i32) -> Option<u8> { x.try_into() }
fn cast_i32_u16(x: i32) -> Option<u16> { x.try_into() }
fn cast_i32_u32(x: i32) -> Option<u32> { x.try_into() }
fn cast_i32_u64(x: i32) -> Option<u64> { x.try_into() }
fn cast_i32_u128(x: i32) -> Option<u128> { x.try_into() }
fn cast_i32_i8(x: i32) -> Option<i8> { x.try_into() }
fn cast_i32_i16(x: i32) -> Option<i16> { x.try_into() }
fn cast_i32_i64(x: i32) -> Option<i64> { x.try_into() }
fn cast_i32_i128(x: i32) -> Option<i128> { x.try_into() }
fn cast_felt252_i32(x: felt252) -> Option<i32> { x.try_into() }
fn cast_i32_felt252(x: i32) -> felt252 { x.into() }

fn cast_i64_u8(x: i64) -> Option<u8> { x.try_into() }
fn cast_i64_u16(x: i64) -> Option<u16> { x.try_into() }
fn cast_i64_u32(x: i64) -> Option<u32> { x.try_into() }
fn cast_i64_u64(x: i64) -> Option<u64> { x.try_into() }
fn cast_i64_u128(x: i64) -> Option<u128> { x.try_into() }
fn cast_i64_i8(x: i64) -> Option<i8> { x.try_into() }
fn cast_i64_i16(x: i64) -> Option<i16> { x.try_into() }
fn cast_i64_i32(x: i64) -> Option<i32> { x.try_into() }
fn cast_i64_i128(x: i64) -> Option<i128> { x.try_into() }
fn cast_felt252_i64(x: felt252) -> Option<i64> { x.try_into() }
fn cast_i64_felt252(x: i64) -> felt252 { x.into() }

fn cast_i128_u8(x: i128) -> Option<u8> { x.try_into() }
fn cast_i128_u16(x: i128) -> Option<u16> { x.try_into() }
fn cast_i128_u32(x: i128) -> Option<u32> { x.try_into() }
fn cast_i128_u64(x: i128) -> Option<u64> { x.try_into() }
fn cast_i128_u128(x: i128) -> Option<u128> { x.try_into() }
fn cast_i128_i8(x: i128) -> Option<i8> { x.try_into() }
fn cast_i128_i16(x: i128) -> Option<i16> { x.try_into() }
fn cast_i128_i32(x: i128) -> Option<i32> { x.try_into() }
fn cast_i128_i64(x: i128) -> Option<i64> { x.try_into() }
fn cast_felt252_i128(x: felt252) -> Option<i128> { x.try_into() }
fn cast_i128_felt252(x: i128) -> felt252 { x.into() }

fn cast_felt252_u256(x: felt252) -> u256 { x.into() }
fn cast_u256_felt252(x: u256) -> Option<felt252> { x.try_into() }
fn cast_felt252_bytes31(x: felt252) -> Option<bytes31> { x.try_into() }
fn cast_u256_u128(x: u256) -> Option<u128> { x.try_into() }
fn cast_u256_u64(x: u256) -> Option<u64> { x.try_into() }
