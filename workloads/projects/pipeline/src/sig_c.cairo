// A third signature-only type.
pub struct EmptyC {}

pub fn pass_c(e: EmptyC) -> EmptyC {
    e
}
