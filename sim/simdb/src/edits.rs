//! Simulated editor: PRNG-driven text edits of Cairo source files.

use simcore::Rng;

pub const EDIT_KINDS: &[&str] = &[
    "insert_comment_line",
    "insert_blank_lines",
    "reindent_line",
    "append_trailing_comment",
    "delete_line",
    "duplicate_line",
    "swap_lines",
    "swap_adjacent_lines",
    "swap_adjacent_items",
    "rename_def_only",
    "rename_everywhere",
    "change_literal",
    "delete_delimiter",
    "insert_delimiter",
    "truncate_torn_write",
    "insert_item",
    "delete_item",
    "duplicate_item",
    "move_item",
    "insert_statement",
    "insert_doc_comment",
    "prepend_header",
    "change_type_annotation",
    "toggle_pub",
    "edit_string_literal",
    "shift_space_in_line",
    "change_attribute",
    "add_variant_or_member",
];

const NEW_ITEMS: &[&str] = &[
    "fn added_one(x: u8) -> u8 {\n    x + 1\n}\n",
    "fn added_bad() -> u8 {\n    300\n}\n",
    "const ADDED_CONST: felt252 = 42;\n",
    "#[derive(Drop)]\nstruct AddedStruct {\n    x: u32,\n    y: u32,\n}\n",
    "fn added_generic<T, +Drop<T>>(x: T) {}\n",
    "fn added_uses_missing() -> u32 {\n    missing_function(3)\n}\n",
    "fn added_moves() {\n    let a = array![1_u8];\n    let b = a;\n    let c = a;\n}\n",
    "enum AddedEnum {\n    A,\n    B: u8,\n}\n",
    "fn added_loop(n: u32) -> u32 {\n    let mut i = 0;\n    while i < n {\n        i += 2;\n    }\n    i\n}\n",
    "trait AddedTrait {\n    fn f(self: @u8) -> u8;\n}\nimpl AddedImpl of AddedTrait {\n    fn f(self: @u8) -> u8 {\n        *self\n    }\n}\n",
    "fn added_unused_var() {\n    let zz = 3_u8;\n}\n",
    "type AddedAlias = u64;\n",
];

const NEW_STATEMENTS: &[&str] = &[
    "    let _zz = 5_u8 + 300;",
    "    let _yy: felt252 = 1;",
    "    let unused_again = 9_u16;",
    "    let _ww = undefined_name;",
    "    assert!(1 == 1, \"x\");",
    "    let _arr = array![1, 2, 3];",
    "    // a comment inside a body",
    "    let _s: ByteArray = \"text\";",
    "    let _m = array![undefined_zz,  1];",
    "    println!(\"{}\",  missing_var);",
];

fn lines_of(s: &str) -> Vec<String> {
    s.split('\n').map(|l| l.to_string()).collect()
}
fn join(lines: &[String]) -> String {
    lines.join("\n")
}

fn is_ident_char(c: char) -> bool {
    c.is_ascii_alphanumeric() || c == '_'
}

/// Identifiers introduced by `fn NAME`, `struct NAME`, `let NAME`, ... with their byte offsets.
fn defined_idents(s: &str) -> Vec<(usize, String)> {
    let mut out = vec![];
    for kw in ["fn ", "struct ", "enum ", "trait ", "impl ", "const ", "let mut ", "let ", "mod ", "type "] {
        let mut from = 0;
        while let Some(p) = s[from..].find(kw) {
            let at = from + p;
            let boundary = at == 0 || !is_ident_char(s[..at].chars().next_back().unwrap());
            let start = at + kw.len();
            let name: String = s[start..].chars().take_while(|c| is_ident_char(*c)).collect();
            if boundary && !name.is_empty() && name != "mut" && name != "_" && !name.chars().next().unwrap().is_ascii_digit() {
                out.push((start, name));
            }
            from = at + kw.len();
        }
    }
    out.sort();
    out.dedup();
    out
}

fn replace_word(s: &str, word: &str, with: &str) -> String {
    let mut out = String::with_capacity(s.len());
    let mut i = 0;
    let b = s.as_bytes();
    while i < s.len() {
        if s[i..].starts_with(word) {
            let before_ok = i == 0 || !is_ident_char(b[i - 1] as char);
            let after = i + word.len();
            let after_ok = after >= s.len() || !is_ident_char(b[after] as char);
            if before_ok && after_ok {
                out.push_str(with);
                i = after;
                continue;
            }
        }
        let ch = s[i..].chars().next().unwrap();
        out.push(ch);
        i += ch.len_utf8();
    }
    out
}

/// Top-level items as (first line, last line) ranges, by brace/semicolon matching from a line that
/// starts an item at column 0 (attributes attach to the following item).
fn top_level_items(lines: &[String]) -> Vec<(usize, usize)> {
    let starts = ["fn ", "pub fn ", "struct ", "pub struct ", "enum ", "pub enum ", "impl ", "pub impl ", "trait ", "pub trait ", "const ", "pub const ", "type ", "use ", "pub use ", "mod ", "pub mod ", "#["];
    let mut items = vec![];
    let mut i = 0;
    while i < lines.len() {
        if starts.iter().any(|p| lines[i].starts_with(p)) {
            let first = i;
            let mut depth: i32 = 0;
            let mut seen_body = false;
            let mut j = i;
            loop {
                if j >= lines.len() {
                    j = lines.len() - 1;
                    break;
                }
                let l = &lines[j];
                for c in l.chars() {
                    match c {
                        '{' => {
                            depth += 1;
                            seen_body = true;
                        }
                        '}' => depth -= 1,
                        _ => {}
                    }
                }
                let attr_only = l.starts_with("#[") && depth == 0 && !seen_body;
                if !attr_only && depth <= 0 && (seen_body || l.trim_end().ends_with(';')) {
                    break;
                }
                j += 1;
            }
            items.push((first, j.min(lines.len() - 1)));
            i = j + 1;
        } else {
            i += 1;
        }
    }
    items
}

/// Applies one edit of the given kind. Returns `None` when the kind does not apply to the text.
pub fn apply(kind: &str, cur: &str, rng: &mut Rng) -> Option<String> {
    let mut lines = lines_of(cur);
    let n = lines.len();
    let pick_line = |rng: &mut Rng| rng.below(n.max(1));
    match kind {
        "insert_comment_line" => {
            let i = pick_line(rng);
            lines.insert(i, format!("// note {}", rng.below(1000)));
            Some(join(&lines))
        }
        "insert_blank_lines" => {
            let i = pick_line(rng);
            for _ in 0..1 + rng.below(3) {
                lines.insert(i, String::new());
            }
            Some(join(&lines))
        }
        "reindent_line" => {
            let i = pick_line(rng);
            if lines[i].trim().is_empty() {
                return None;
            }
            lines[i] = format!("{}{}", " ".repeat(rng.below(9)), lines[i].trim_start());
            Some(join(&lines))
        }
        "append_trailing_comment" => {
            let i = pick_line(rng);
            if lines[i].contains('"') {
                return None;
            }
            lines[i] = format!("{} // t{}", lines[i], rng.below(100));
            Some(join(&lines))
        }
        "delete_line" => {
            if n < 2 {
                return None;
            }
            lines.remove(pick_line(rng));
            Some(join(&lines))
        }
        "duplicate_line" => {
            let i = pick_line(rng);
            let l = lines[i].clone();
            lines.insert(i, l);
            Some(join(&lines))
        }
        "swap_lines" => {
            if n < 2 {
                return None;
            }
            let i = pick_line(rng);
            let j = pick_line(rng);
            if i == j {
                return None;
            }
            lines.swap(i, j);
            Some(join(&lines))
        }
        "swap_adjacent_lines" => {
            // Re-orders struct members, enum variants, statements, parameters on their own lines...
            let cands: Vec<usize> = (0..n.saturating_sub(1))
                .filter(|i| !lines[*i].trim().is_empty() && !lines[*i + 1].trim().is_empty() && lines[*i] != lines[*i + 1])
                .filter(|i| {
                    let ind = |l: &String| l.len() - l.trim_start().len();
                    ind(&lines[*i]) == ind(&lines[*i + 1]) && ind(&lines[*i]) > 0
                })
                .collect();
            if cands.is_empty() {
                return None;
            }
            let i = cands[rng.below(cands.len())];
            lines.swap(i, i + 1);
            Some(join(&lines))
        }
        "swap_adjacent_items" => {
            let items = top_level_items(&lines);
            if items.len() < 2 {
                return None;
            }
            let k = rng.below(items.len() - 1);
            let (a0, a1) = items[k];
            let (b0, b1) = items[k + 1];
            if b0 <= a1 {
                return None;
            }
            let mut out: Vec<String> = lines[..a0].to_vec();
            out.extend_from_slice(&lines[b0..=b1]);
            out.extend_from_slice(&lines[a1 + 1..b0]);
            out.extend_from_slice(&lines[a0..=a1]);
            out.extend_from_slice(&lines[b1 + 1..]);
            Some(join(&out))
        }
        "rename_def_only" => {
            let defs = defined_idents(cur);
            if defs.is_empty() {
                return None;
            }
            let (at, name) = defs[rng.below(defs.len())].clone();
            let mut s = cur.to_string();
            s.replace_range(at..at + name.len(), &format!("{name}_r{}", rng.below(10)));
            Some(s)
        }
        "rename_everywhere" => {
            let defs = defined_idents(cur);
            if defs.is_empty() {
                return None;
            }
            let (_, name) = defs[rng.below(defs.len())].clone();
            Some(replace_word(cur, &name, &format!("{name}_n{}", rng.below(10))))
        }
        "change_literal" => {
            // Find a decimal literal and replace it.
            let bytes = cur.as_bytes();
            let mut spots = vec![];
            let mut i = 0;
            while i < bytes.len() {
                if bytes[i].is_ascii_digit() && (i == 0 || !is_ident_char(bytes[i - 1] as char)) {
                    let mut j = i;
                    while j < bytes.len() && bytes[j].is_ascii_digit() {
                        j += 1;
                    }
                    spots.push((i, j));
                    i = j;
                } else {
                    i += 1;
                }
            }
            if spots.is_empty() {
                return None;
            }
            let (a, b) = spots[rng.below(spots.len())];
            let new = ["0", "1", "255", "256", "300", "65536", "4294967296", "340282366920938463463374607431768211456", "7"][rng.below(9)];
            let mut s = cur.to_string();
            s.replace_range(a..b, new);
            Some(s)
        }
        "delete_delimiter" => {
            let spots: Vec<usize> = cur.char_indices().filter(|(_, c)| "{}();,:<>".contains(*c)).map(|(i, _)| i).collect();
            if spots.is_empty() {
                return None;
            }
            let at = spots[rng.below(spots.len())];
            let mut s = cur.to_string();
            s.remove(at);
            Some(s)
        }
        "insert_delimiter" => {
            let spots: Vec<usize> = cur.char_indices().map(|(i, _)| i).collect();
            if spots.is_empty() {
                return None;
            }
            let at = spots[rng.below(spots.len())];
            let mut s = cur.to_string();
            s.insert(at, ['{', '}', '(', ')', ';', '"', '\'', '#', '@'][rng.below(9)]);
            Some(s)
        }
        "truncate_torn_write" => {
            if cur.is_empty() {
                return None;
            }
            let mut c = rng.below(cur.len() + 1);
            while !cur.is_char_boundary(c) {
                c -= 1;
            }
            Some(cur[..c].to_string())
        }
        "insert_item" => {
            let items = top_level_items(&lines);
            let at = if items.is_empty() || rng.chance(1, 3) { n } else { items[rng.below(items.len())].0 };
            let item = NEW_ITEMS[rng.below(NEW_ITEMS.len())];
            let mut new_lines: Vec<String> = item.trim_end_matches('\n').split('\n').map(|s| s.to_string()).collect();
            new_lines.push(String::new());
            let at = at.min(lines.len());
            for (k, l) in new_lines.into_iter().enumerate() {
                lines.insert(at + k, l);
            }
            Some(join(&lines))
        }
        "delete_item" => {
            let items = top_level_items(&lines);
            if items.is_empty() {
                return None;
            }
            let (a, b) = items[rng.below(items.len())];
            lines.drain(a..=b);
            Some(join(&lines))
        }
        "duplicate_item" => {
            let items = top_level_items(&lines);
            if items.is_empty() {
                return None;
            }
            let (a, b) = items[rng.below(items.len())];
            let copy: Vec<String> = lines[a..=b].to_vec();
            for (k, l) in copy.into_iter().enumerate() {
                lines.insert(b + 1 + k, l);
            }
            Some(join(&lines))
        }
        "move_item" => {
            let items = top_level_items(&lines);
            if items.len() < 2 {
                return None;
            }
            let (a, b) = items[rng.below(items.len())];
            let moved: Vec<String> = lines.drain(a..=b).collect();
            let items2 = top_level_items(&lines);
            let at = if items2.is_empty() || rng.chance(1, 3) { lines.len() } else { items2[rng.below(items2.len())].0 };
            for (k, l) in moved.into_iter().enumerate() {
                lines.insert(at + k, l);
            }
            Some(join(&lines))
        }
        "insert_statement" => {
            // After a line that opens a function body.
            let spots: Vec<usize> = lines
                .iter()
                .enumerate()
                .filter(|(_, l)| l.trim_start().starts_with("fn ") || l.trim_start().starts_with("pub fn "))
                .filter(|(_, l)| l.trim_end().ends_with('{'))
                .map(|(i, _)| i)
                .collect();
            if spots.is_empty() {
                return None;
            }
            let at = spots[rng.below(spots.len())] + 1;
            lines.insert(at, NEW_STATEMENTS[rng.below(NEW_STATEMENTS.len())].to_string());
            Some(join(&lines))
        }
        "insert_doc_comment" => {
            let items = top_level_items(&lines);
            if items.is_empty() {
                return None;
            }
            let (a, _) = items[rng.below(items.len())];
            lines.insert(a, format!("/// documented {}", rng.below(100)));
            Some(join(&lines))
        }
        "prepend_header" => Some(format!("// header {}\n\n{}", rng.below(1000), cur)),
        "change_type_annotation" => {
            let tys = ["u8", "u16", "u32", "u64", "u128", "felt252"];
            let from = tys[rng.below(tys.len())];
            let to = tys[rng.below(tys.len())];
            if from == to || !cur.contains(from) {
                return None;
            }
            // Replace one whole-word occurrence.
            let occ: Vec<usize> = cur.match_indices(from).map(|(i, _)| i).filter(|i| {
                let before_ok = *i == 0 || !is_ident_char(cur.as_bytes()[*i - 1] as char);
                let a = *i + from.len();
                before_ok && (a >= cur.len() || !is_ident_char(cur.as_bytes()[a] as char))
            }).collect();
            if occ.is_empty() {
                return None;
            }
            let at = occ[rng.below(occ.len())];
            let mut s = cur.to_string();
            s.replace_range(at..at + from.len(), to);
            Some(s)
        }
        "edit_string_literal" => {
            // Change the text inside a "..." or '...' literal (messages, notes, short strings).
            let spots: Vec<(usize, usize)> = {
                let mut v = vec![];
                for q in ['"', '\''] {
                    let idx: Vec<usize> = cur.match_indices(q).map(|(i, _)| i).collect();
                    for w in idx.chunks(2) {
                        if w.len() == 2 && w[1] > w[0] + 1 && !cur[w[0]..w[1]].contains('\n') {
                            v.push((w[0] + 1, w[1]));
                        }
                    }
                }
                v
            };
            if spots.is_empty() {
                return None;
            }
            let (a, b) = spots[rng.below(spots.len())];
            let mut at = a + rng.below(b - a);
            while !cur.is_char_boundary(at) {
                at -= 1;
            }
            let mut s = cur.to_string();
            match rng.below(3) {
                0 => s.insert(at, ['x', ' ', '9', 'Z'][rng.below(4)]),
                1 => {
                    let ch_len = s[at..].chars().next().map(|c| c.len_utf8()).unwrap_or(1);
                    if at + ch_len <= b {
                        s.replace_range(at..at + ch_len, "");
                    }
                }
                _ => s.insert_str(at, "ed"),
            }
            Some(s)
        }
        "add_variant_or_member" => {
            // A new variant in an enum / member in a struct (right before the closing brace), or a
            // changed payload type of an existing variant.
            let mut bodies: Vec<(usize, usize, bool)> = vec![]; // (open line, close line, is enum)
            let mut i = 0;
            while i < n {
                let t = lines[i].trim_start();
                let is_enum = t.starts_with("enum ") || t.starts_with("pub enum ");
                let is_struct = t.starts_with("struct ") || t.starts_with("pub struct ");
                if (is_enum || is_struct) && lines[i].trim_end().ends_with('{') {
                    if let Some(close) = (i + 1..n).find(|k| lines[*k].trim() == "}") {
                        bodies.push((i, close, is_enum));
                        i = close;
                    }
                }
                i += 1;
            }
            if bodies.is_empty() {
                return None;
            }
            let (open, close, is_enum) = bodies[rng.below(bodies.len())];
            if is_enum && rng.chance(1, 2) && close > open + 1 {
                // Change a payload type.
                let k = open + 1 + rng.below(close - open - 1);
                let l = lines[k].clone();
                let tys = ["felt252", "u128", "u32", "u8", "u64"];
                for (a, from) in tys.iter().enumerate() {
                    if l.contains(from) {
                        lines[k] = l.replacen(from, tys[(a + 1 + rng.below(4)) % 5], 1);
                        return Some(join(&lines));
                    }
                }
                return None;
            }
            let k = rng.below(100);
            let new = if is_enum { format!("    Extra{k}: u16,") } else { format!("    extra{k}: u16,") };
            lines.insert(close, new);
            Some(join(&lines))
        }
        "change_attribute" => {
            // Attribute edits: inline hints, derive lists, adding / removing an attribute line.
            let attr_lines: Vec<usize> = lines.iter().enumerate().filter(|(_, l)| l.trim_start().starts_with("#[")).map(|(i, _)| i).collect();
            let fn_lines: Vec<usize> = lines.iter().enumerate().filter(|(_, l)| l.starts_with("fn ") || l.starts_with("pub fn ")).map(|(i, _)| i).collect();
            // Event field kinds of the Starknet plugin: `#[key]` on a member of an event struct,
            // `#[flat]` on a variant of an event enum (the generated code and the plugin's aux data
            // change, the set of generated files does not).
            let mut event_fields: Vec<(usize, bool)> = vec![]; // (line of the member / variant, is enum)
            {
                let mut i = 0;
                while i < n {
                    if lines[i].contains("starknet::Event") && lines[i].trim_start().starts_with("#[derive(") {
                        if let Some(open) = (i + 1..n.min(i + 4)).find(|k| lines[*k].trim_end().ends_with('{')) {
                            let is_enum = lines[open].contains("enum ");
                            if let Some(close) = (open + 1..n).find(|k| lines[*k].trim() == "}") {
                                for k in open + 1..close {
                                    let t = lines[k].trim();
                                    if !t.starts_with("#[") && !t.starts_with("//") && t.contains(": ") && t.ends_with(',') {
                                        event_fields.push((k, is_enum));
                                    }
                                }
                                i = close;
                            }
                        }
                    }
                    i += 1;
                }
            }
            if !event_fields.is_empty() && rng.chance(1, 3) {
                let (k, is_enum) = event_fields[rng.below(event_fields.len())];
                let attr = if is_enum { "#[flat]" } else { "#[key]" };
                if k > 0 && lines[k - 1].trim() == attr {
                    lines.remove(k - 1);
                } else {
                    let indent = lines[k].len() - lines[k].trim_start().len();
                    lines.insert(k, format!("{}{attr}", " ".repeat(indent)));
                }
                return Some(join(&lines));
            }
            match rng.below(4) {
                0 if !attr_lines.is_empty() => {
                    let i = attr_lines[rng.below(attr_lines.len())];
                    let l = lines[i].clone();
                    let new = if l.contains("inline(always)") {
                        l.replace("inline(always)", "inline(never)")
                    } else if l.contains("inline(never)") {
                        l.replace("inline(never)", "inline(always)")
                    } else if l.contains("derive(") && l.contains(", ") {
                        // Drop the last derive.
                        match l.rfind(", ") {
                            Some(p) => format!("{}{}", &l[..p], &l[l.rfind(')').unwrap_or(l.len())..]),
                            None => return None,
                        }
                    } else if l.contains("derive(") {
                        l.replace("derive(", "derive(Debug, ")
                    } else {
                        return None;
                    };
                    lines[i] = new;
                    Some(join(&lines))
                }
                1 if !attr_lines.is_empty() => {
                    lines.remove(attr_lines[rng.below(attr_lines.len())]);
                    Some(join(&lines))
                }
                _ if !fn_lines.is_empty() => {
                    let i = fn_lines[rng.below(fn_lines.len())];
                    lines.insert(i, ["#[inline(always)]", "#[inline(never)]", "#[inline]", "#[must_use]"][rng.below(4)].to_string());
                    Some(join(&lines))
                }
                _ => None,
            }
        }
        "shift_space_in_line" => {
            // Move one space from one place of a line to another: the line keeps its length, tokens
            // move by one column. Lines with macro calls are preferred (their arguments are copied
            // into generated code and mapped back).
            let has_macro = |l: &String| l.contains("![") || l.contains("!(");
            let mut cands: Vec<usize> = (0..n).filter(|i| has_macro(&lines[*i]) && lines[*i].trim().contains(' ')).collect();
            if cands.is_empty() || rng.chance(1, 3) {
                cands = (0..n).filter(|i| lines[*i].trim().contains(' ') && !lines[*i].contains('"')).collect();
            }
            if cands.is_empty() {
                return None;
            }
            let i = cands[rng.below(cands.len())];
            let l = lines[i].clone();
            let b = l.as_bytes();
            if !l.is_ascii() {
                return None;
            }
            let indent = l.len() - l.trim_start().len();
            // Positions outside string literals.
            let mut outside = vec![true; b.len()];
            let mut q: Option<u8> = None;
            for (k, c) in b.iter().enumerate() {
                match q {
                    Some(d) => {
                        outside[k] = false;
                        if *c == d {
                            q = None;
                        }
                    }
                    None if *c == b'"' || *c == b'\'' => {
                        q = Some(*c);
                        outside[k] = false;
                    }
                    None => {}
                }
            }
            let ident = |c: u8| c.is_ascii_alphanumeric() || c == b'_';
            // A space may go when it is part of a run of spaces, or when its neighbours would not
            // glue into one token.
            let removable: Vec<usize> = (indent + 1..b.len().saturating_sub(1))
                .filter(|k| b[*k] == b' ' && outside[*k])
                .filter(|k| b[*k - 1] == b' ' || b[*k + 1] == b' ' || !(ident(b[*k - 1]) && ident(b[*k + 1])))
                .filter(|k| !(b[*k - 1] == b'=' && b[*k + 1] == b'=') && !(b[*k - 1] == b'-' && b[*k + 1] == b'>'))
                .collect();
            // A space may come after an opening bracket or a comma, or before a closing bracket.
            let insertable: Vec<usize> = (indent..b.len())
                .filter(|k| outside[*k])
                .filter_map(|k| match b[k] {
                    b',' | b'[' | b'(' => Some(k + 1),
                    b']' | b')' => Some(k),
                    _ => None,
                })
                .collect();
            if removable.is_empty() || insertable.is_empty() {
                return None;
            }
            // Prefer a removal from a run of spaces (always safe).
            let runs: Vec<usize> = removable.iter().copied().filter(|k| b[*k - 1] == b' ' || b[*k + 1] == b' ').collect();
            let del = if !runs.is_empty() && rng.chance(3, 4) { runs[rng.below(runs.len())] } else { removable[rng.below(removable.len())] };
            let ins = insertable[rng.below(insertable.len())];
            if ins == del || ins == del + 1 {
                return None;
            }
            let mut s = l.clone();
            if ins > del {
                s.insert(ins, ' ');
                s.remove(del);
            } else {
                s.remove(del);
                s.insert(ins, ' ');
            }
            lines[i] = s;
            Some(join(&lines))
        }
        "toggle_pub" => {
            // Item level (`pub fn`, `pub struct` at the start of a line) or member level (`pub x: T`
            // anywhere in a struct written on one or several lines).
            if rng.chance(1, 2) {
                let spots: Vec<usize> = lines.iter().enumerate().filter(|(_, l)| l.starts_with("pub fn ") || l.starts_with("fn ") || l.starts_with("pub struct ") || l.starts_with("struct ")).map(|(i, _)| i).collect();
                if spots.is_empty() {
                    return None;
                }
                let i = spots[rng.below(spots.len())];
                lines[i] = if let Some(rest) = lines[i].strip_prefix("pub ") { rest.to_string() } else { format!("pub {}", lines[i]) };
                return Some(join(&lines));
            }
            // Member level: positions right after `{ ` or `, ` on lines of a struct body.
            let mut in_struct = false;
            let mut spots: Vec<(usize, usize, bool)> = vec![]; // (line, byte offset, currently pub)
            for (i, l) in lines.iter().enumerate() {
                let t = l.trim_start();
                if t.starts_with("struct ") || t.starts_with("pub struct ") {
                    in_struct = true;
                }
                if in_struct {
                    let b = l.as_bytes();
                    for k in 0..b.len() {
                        let after_sep = k >= 2 && (&l[k - 2..k] == "{ " || &l[k - 2..k] == ", ") || (k == l.len() - l.trim_start().len() && !t.starts_with("struct") && !t.starts_with("pub struct") && !t.starts_with('}') && !t.starts_with('#'));
                        if after_sep && k < b.len() && (b[k].is_ascii_alphabetic() || b[k] == b'_') {
                            let is_pub = l[k..].starts_with("pub ");
                            if l[k..].contains(':') {
                                spots.push((i, k, is_pub));
                            }
                        }
                    }
                    if l.contains('}') {
                        in_struct = false;
                    }
                }
            }
            if spots.is_empty() {
                return None;
            }
            let (i, k, is_pub) = spots[rng.below(spots.len())];
            let mut s = lines[i].clone();
            if is_pub {
                s.replace_range(k..k + 4, "");
            } else {
                s.insert_str(k, "pub ");
            }
            lines[i] = s;
            Some(join(&lines))
        }
        _ => None,
    }
}

/// Picks a kind (swarm-style: from the enabled subset) and applies it; retries a few times when a
/// kind does not apply. Returns (kind, new content).
pub fn random_edit(cur: &str, enabled: &[&'static str], rng: &mut Rng) -> Option<(&'static str, String)> {
    for _ in 0..8 {
        let kind = enabled[rng.below(enabled.len())];
        if let Some(new) = apply(kind, cur, rng) {
            if new != cur {
                return Some((kind, new));
            }
        }
    }
    None
}
