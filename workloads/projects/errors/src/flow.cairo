pub fn moved() -> felt252 {
    let a = array![1, 2, 3];
    let b = a;
    let c = a;
    let unused_one = 7_u8;
    b.len().into() + c.len().into()
}

fn mismatch(x: u8) -> u16 {
    let y: u32 = x;
    if y {
        return 1;
    }
    x
}

fn literal_overflow() -> u8 {
    300
}

fn missing_return(x: felt252) -> felt252 {
    let z = x + 1;
}

fn unknown_things() -> felt252 {
    not_defined(3) + Missing::CONST + 1_u8
}

fn ref_misuse() {
    let x = 5_u32;
    bump(ref x);
}

fn bump(ref v: u32) {
    v += 1;
}

fn inside_macros(x: u8) -> Array<felt252> {
    let items = array![undefined_in_macro,  1, 2];
    println!("{} {}",  x, also_undefined);
    assert!(x ==  not_here, "message {}", x);
    items
}

fn method_from_unimported_traits(x: u32, y: u64) -> u64 {
    let r = x.sqrt();
    y.pow(r)
}
