use super::dtypes::{DA, DB};

// Both parameters go out of scope at the same point.
pub fn both(a: DA, b: DB) -> felt252 {
    3
}

// In the `else` arm both values go out of scope at the same point.
pub fn both_in_arm(v: felt252) -> felt252 {
    let a = DA { v };
    let b = DB { v };
    if v == 0 {
        super::uses_da::only_a(a) + super::uses_db::only_b(b)
    } else {
        4
    }
}
