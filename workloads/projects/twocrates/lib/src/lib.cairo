pub mod ops;

pub const SCALE: u64 = 100;

#[derive(Copy, Drop, PartialEq, Debug)]
pub struct Fraction {
    pub num: u64,
    pub den: u64,
}

pub trait FractionTrait {
    fn value(self: @Fraction) -> u64;
    fn inverse(self: Fraction) -> Fraction;
}

pub impl FractionImpl of FractionTrait {
    fn value(self: @Fraction) -> u64 {
        *self.num * SCALE / *self.den
    }
    fn inverse(self: Fraction) -> Fraction {
        Fraction { num: self.den, den: self.num }
    }
}
