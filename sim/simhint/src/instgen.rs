//! Instantiation generator: the CASM of `bounded_int_div_rem`, `downcast` and
//! `bounded_int_constrain` depends on the ranges of the types they are instantiated with (three
//! division algorithms chosen by guards on the operand ranges, several cast strategies), and golden
//! files pin only a few instantiations. This module writes one single-function Cairo file per
//! PRNG-chosen instantiation; those the compiler accepts join the workload, those it rejects are
//! counted (a rejected instantiation cannot be unsound).

use std::path::{Path, PathBuf};

use num_bigint::BigInt;
use num_traits::{One, Zero};
use simcore::Rng;

fn pow(e: u32) -> BigInt {
    BigInt::one() << e
}

fn lit(x: &BigInt) -> String {
    if x < &BigInt::zero() { format!("-0x{:x}", -x) } else { format!("0x{x:x}") }
}

const HEADER: &str = "#[feature(\"bounded-int-utils\")]\nuse core::internal::bounded_int::{self, BoundedInt, ConstrainHelper, DivRemHelper, downcast, upcast};\n";

fn pick_bound(rng: &mut Rng, exps: &[u32]) -> BigInt {
    let e = *rng.pick(exps);
    let base = pow(e);
    match rng.below(6) {
        0 => base,
        1 => base - 1,
        2 => base + 1,
        3 => base + BigInt::from(rng.below(1000) as u64),
        4 => &base + (&base >> 1),
        _ => base - BigInt::from(1 + rng.below(1000) as u64),
    }
}

fn div_rem(rng: &mut Rng) -> String {
    // A third of the instantiations is drawn from the zone where the algorithm guards
    // (`x * 2**128 < prime`, `q_max < 2**128`, `rhs.upper <= 2**128 + 1`) switch.
    let guard_zone = rng.chance(1, 3);
    let l1 = if guard_zone {
        pick_bound(rng, &[123, 128, 200, 236, 240, 244, 246, 247, 248, 249, 250, 251])
    } else {
        pick_bound(rng, &[8, 32, 64, 96, 100, 120, 123, 125, 127, 128, 130, 160, 200, 240, 246, 248, 250])
    };
    let l0 = if rng.chance(3, 4) { BigInt::zero() } else { &l1 >> (1 + rng.below(40)) };
    let r0 = if guard_zone {
        if rng.chance(1, 4) { BigInt::one() } else { pick_bound(rng, &[100, 116, 118, 120, 121, 122, 123, 124, 125, 126, 127, 128]) }
    } else if rng.chance(1, 3) {
        BigInt::one()
    } else {
        pick_bound(rng, &[1, 20, 50, 64, 73, 100, 110, 118, 120, 122, 123, 124, 126, 127])
    };
    let mut r1 = if guard_zone {
        pick_bound(rng, &[122, 123, 124, 125, 126, 127, 128, 129, 130])
    } else {
        pick_bound(rng, &[2, 8, 64, 100, 118, 122, 123, 124, 125, 127, 128, 129, 130])
    };
    if r1 <= r0 {
        r1 = &r0 + pick_bound(rng, &[1, 30, 100, 123, 127]);
    }
    let r0 = r0.max(BigInt::zero());
    // Threshold mode: put the quotient bound (or the root of the dividend bound) right at the
    // value where `x * 2**128 < prime` flips, which is where a wrap-around solution of
    // `q*b + r = a (mod prime)` with a 128-bit quotient starts to exist.
    let (l0, l1) = if guard_zone && rng.chance(1, 2) {
        let prime: BigInt = (BigInt::one() << 251) + (BigInt::from(17) << 192) + 1;
        let t = &prime >> 128u32;
        let delta = match rng.below(8) {
            0 => -(BigInt::one() << 91u32),
            1 => -(BigInt::one() << 64u32),
            2 => BigInt::from(-2),
            3 => BigInt::from(-1),
            4 => BigInt::zero(),
            5 => BigInt::one(),
            6 => BigInt::one() << 64u32,
            _ => -(BigInt::one() << 100u32),
        };
        let target = &t + delta;
        let l1 = if rng.chance(2, 3) { (&r0).max(&BigInt::one()) * &target - 1 } else { &target * &target - 1 };
        (BigInt::zero(), l1)
    } else {
        (l0, l1)
    };
    let qmin = &l0 / &r1;
    let qmax = &l1 / (&r0).max(&BigInt::one());
    let rem_max = &r1 - 1;
    format!(
        "{HEADER}impl H of DivRemHelper<BoundedInt<{l0}, {l1}>, BoundedInt<{r0}, {r1}>> {{\n    type DivT = BoundedInt<{qmin}, {qmax}>;\n    type RemT = BoundedInt<0, {rem}>;\n}}\nfn gen_div_rem(a: BoundedInt<{l0}, {l1}>, b: NonZero<BoundedInt<{r0}, {r1}>>) -> (felt252, felt252) {{\n    let (q, r) = bounded_int::div_rem(a, b);\n    (upcast(q), upcast(r))\n}}\n",
        l0 = lit(&l0), l1 = lit(&l1), r0 = lit(&r0), r1 = lit(&r1), qmin = lit(&qmin), qmax = lit(&qmax), rem = lit(&rem_max)
    )
}

fn signed_bound(rng: &mut Rng) -> BigInt {
    // Half of the endpoints come from the values where cast strategies switch: 0, the range-check
    // bound 2**128 (and one below / above it), the signed bounds, small offsets from them.
    if rng.chance(1, 2) {
        let special: [BigInt; 12] = [
            BigInt::zero(),
            BigInt::one(),
            BigInt::from(-1),
            pow(128) - 1,
            pow(128),
            pow(128) + 1,
            pow(127) - 1,
            -pow(127),
            pow(64),
            BigInt::from(10),
            BigInt::from(-5),
            BigInt::from(255),
        ];
        let v = rng.pick(&special).clone();
        return match rng.below(4) {
            0 => v - BigInt::from(rng.below(2000) as u64),
            1 => v + BigInt::from(rng.below(2000) as u64),
            _ => v,
        };
    }
    let b = pick_bound(rng, &[0, 7, 8, 16, 31, 64, 96, 100, 127, 128]);
    if rng.chance(1, 3) { -b } else { b }
}

fn downcast_inst(rng: &mut Rng) -> String {
    let from_felt = rng.chance(1, 2);
    // A third of the non-felt sources are the standard integer types.
    let std_src: Option<(&str, BigInt, BigInt)> = if !from_felt && rng.chance(1, 3) {
        Some(match rng.below(6) {
            0 => ("u8", BigInt::zero(), BigInt::from(255)),
            1 => ("i8", BigInt::from(-128), BigInt::from(127)),
            2 => ("u64", BigInt::zero(), pow(64) - 1),
            3 => ("i64", -pow(63), pow(63) - 1),
            4 => ("u128", BigInt::zero(), pow(128) - 1),
            _ => ("i128", -pow(127), pow(127) - 1),
        })
    } else {
        None
    };
    let (mut t0, mut t1) = (signed_bound(rng), signed_bound(rng));
    if t0 > t1 {
        std::mem::swap(&mut t0, &mut t1);
    }
    if from_felt {
        format!(
            "{HEADER}fn gen_downcast(a: felt252) -> felt252 {{\n    match downcast::<felt252, BoundedInt<{t0}, {t1}>>(a) {{ Some(v) => upcast(v), None => 0x1234567 }}\n}}\n",
            t0 = lit(&t0), t1 = lit(&t1)
        )
    } else if let Some((name, lo, hi)) = std_src {
        // Target inside the source type, so that the cast is a real downcast.
        if rng.chance(1, 2) {
            t0 = t0.max(lo.clone()).min(hi.clone());
            t1 = t1.max(lo.clone()).min(hi.clone());
            if t0 > t1 {
                std::mem::swap(&mut t0, &mut t1);
            }
            if rng.chance(1, 2) {
                t1 = hi.clone();
            } else if rng.chance(1, 2) {
                t0 = lo.clone();
            }
        }
        format!(
            "{HEADER}fn gen_downcast(a: {name}) -> felt252 {{\n    match downcast::<{name}, BoundedInt<{t0}, {t1}>>(a) {{ Some(v) => upcast(v), None => 0x1234567 }}\n}}\n",
            t0 = lit(&t0), t1 = lit(&t1)
        )
    } else {
        let (mut f0, mut f1) = (signed_bound(rng), signed_bound(rng));
        if f0 > f1 {
            std::mem::swap(&mut f0, &mut f1);
        }
        format!(
            "{HEADER}fn gen_downcast(a: BoundedInt<{f0}, {f1}>) -> felt252 {{\n    match downcast::<BoundedInt<{f0}, {f1}>, BoundedInt<{t0}, {t1}>>(a) {{ Some(v) => upcast(v), None => 0x1234567 }}\n}}\n",
            f0 = lit(&f0), f1 = lit(&f1), t0 = lit(&t0), t1 = lit(&t1)
        )
    }
}

fn constrain_inst(rng: &mut Rng) -> String {
    let (mut f0, mut f1) = (signed_bound(rng), signed_bound(rng));
    if f0 > f1 {
        std::mem::swap(&mut f0, &mut f1);
    }
    if &f1 - &f0 < BigInt::from(2) {
        f1 = &f0 + 1000;
    }
    let width = &f1 - &f0;
    let b = &f0 + BigInt::one() + (BigInt::from(rng.next_u64()) * &width >> 64u32).min(&width - 1);
    format!(
        "{HEADER}impl C of ConstrainHelper<BoundedInt<{f0}, {f1}>, {b}> {{\n    type LowT = BoundedInt<{f0}, {bm1}>;\n    type HighT = BoundedInt<{b}, {f1}>;\n}}\nfn gen_constrain(a: BoundedInt<{f0}, {f1}>) -> felt252 {{\n    match bounded_int::constrain::<BoundedInt<{f0}, {f1}>, {b}>(a) {{\n        Ok(lo) => upcast::<_, felt252>(lo) * 2,\n        Err(hi) => upcast::<_, felt252>(hi) * 2 + 1,\n    }}\n}}\n",
        f0 = lit(&f0), f1 = lit(&f1), b = lit(&b), bm1 = lit(&(&b - 1))
    )
}

/// Composer: a function chaining several hinted operations with a branch, a loop and locals, so
/// that hinted libfuncs are also met after merges, inside loops (ap unknown) and around calls.
fn compose(rng: &mut Rng) -> String {
    // Each snippet is an expression of type felt252 over a: u128, b: u64, c: u8, f: felt252, i: u8.
    const SNIPPETS: &[&str] = &[
        "(a / (b.into() + 1)).into()",
        "match a.checked_add(b.into()) { Some(v) => v.into(), None => 1 }",
        "match a.checked_sub(b.into()) { Some(v) => v.into(), None => 2 }",
        "{ let (q, r) = DivRem::div_rem(b, (c.into() + 1_u64).try_into().unwrap()); (q + r).into() }",
        "b.sqrt().into()",
        "{ let w = a.wide_mul(a); w.low.into() + w.high.into() }",
        "match TryInto::<felt252, u8>::try_into(f) { Some(v) => v.into(), None => 3 }",
        "match TryInto::<u128, u16>::try_into(a) { Some(v) => v.into(), None => 4 }",
        "{ let x: u256 = f.into(); (x / 7_u256).low.into() }",
        "{ let x: u256 = f.into(); let y: u256 = a.into(); if x < y { 5 } else { 6 } }",
        "{ let mut d: Felt252Dict<felt252> = Default::default(); d.insert(f, 5); d.insert(f + 1, i.into()); d.get(f) + d.get(f + 1) }",
        "{ let arr = array![a, a / 2, a / 3]; match arr.get(c.into() % 4) { Some(x) => (*x.unbox()).into(), None => 7 } }",
        "{ let sp = array![b, b / 2, b / 4, 9].span(); let sl = sp.slice(1, (i % 3).into()); sl.len().into() }",
        "if a < b.into() { 8 } else { 9 }",
        "{ let s: i64 = 5 - c.into(); let t: i64 = s * 3; if t < 0 { 10 } else { t.try_into().unwrap_or(11_u8).into() } }",
        "match EcPointTrait::new_nz_from_x(f) { Some(p) => { let (x, _y) = p.coordinates(); x }, None => 12 }",
        "{ let bx = BoxTrait::new((a, b)); let (p, q) = bx.unbox(); p.into() + q.into() }",
        "(c + i).into()",
        "{ let m: u64 = b % 1000; (m * m).into() }",
    ];
    let mut body = String::new();
    body.push_str("    let mut acc: felt252 = f;\n    let i: u8 = c % 3;\n");
    for k in 0..1 + rng.below(3) {
        body.push_str(&format!("    let x{k}: felt252 = {};\n    acc = acc * 3 + x{k};\n", SNIPPETS[rng.below(SNIPPETS.len())]));
    }
    body.push_str(&format!(
        "    if c % 2 == 0 {{\n        acc += {};\n    }} else {{\n        acc += {};\n    }}\n",
        SNIPPETS[rng.below(SNIPPETS.len())],
        SNIPPETS[rng.below(SNIPPETS.len())]
    ));
    body.push_str(&format!(
        "    let mut i: u8 = 0;\n    while i != c % 4 {{\n        acc = acc * 5 + {};\n        i += 1;\n    }}\n",
        SNIPPETS[rng.below(SNIPPETS.len())]
    ));
    body.push_str(&format!("    let tail: felt252 = {};\n    acc + tail\n", SNIPPETS[rng.below(SNIPPETS.len())]));
    format!(
        "use core::num::traits::{{CheckedAdd, CheckedSub, Sqrt, WideMul}};\nuse core::dict::Felt252Dict;\nuse core::ec::EcPointTrait;\n\nfn gen_compose(a: u128, b: u64, c: u8, f: felt252) -> felt252 {{\n{body}}}\n"
    )
}

/// Array libfuncs whose CASM depends on the element size and on the popped size: element type
/// `[felt252; K]` (K cells), spans with readable data behind them, index / slice / multi-pop of
/// PRNG sizes (the range proofs of `array_get`, `array_slice` and `array_snapshot_multi_pop_*`
/// are built from `element_size` and `popped_size` constants).
fn array_inst(rng: &mut Rng) -> String {
    let k = [1usize, 2, 3, 4, 5, 6, 7, 8, 9, 12, 16, 17][rng.below(12)];
    let lenmod = 3 + rng.below(5);
    let prologue = format!(
        "    let mut arr: Array<[felt252; {k}]> = array![];\n    let mut i: u8 = 0;\n    while i != n % {lenmod} {{ arr.append([i.into() * 7 + 1; {k}]); i += 1; }}\n    let sp = arr.span();\n    arr.append([9001; {k}]);\n    arr.append([9002; {k}]);\n    arr.append([9003; {k}]);\n"
    );
    let km1 = k - 1;
    let body = match rng.below(5) {
        0 => format!(
            "    let r: felt252 = match sp.get(idx) {{ Some(b) => {{ let e: [felt252; {k}] = *b.unbox(); let s = e.span(); *s.at(0) + 2 * *s.at({km1}) }}, None => 999 }};\n    r * 2 + arr.len().into()\n"
        ),
        1 => {
            let m = rng.below(4);
            format!(
                "    let sl = sp.slice(idx, {m});\n    let r: felt252 = sl.len().into() * 1000 + (if sl.len() == 0 {{ 0 }} else {{ let e: [felt252; {k}] = *sl.at(0); *e.span().at({km1}) }});\n    r * 2 + arr.len().into()\n"
            )
        }
        2 => format!(
            "    let sl = sp.slice(idx % 4, (idx / 4) % 4);\n    let r: felt252 = sl.len().into() * 1000 + (if sl.len() == 0 {{ 0 }} else {{ let e: [felt252; {k}] = *sl.at(sl.len() - 1); *e.span().at(0) }});\n    r * 2 + arr.len().into()\n"
        ),
        v => {
            // Popped sizes on both sides of 16 cells and beyond.
            let n_pop = (1 + rng.below(if k >= 8 { 4 } else { 40 / k })).max(1);
            let np1 = n_pop - 1;
            let which = if v == 3 { "multi_pop_front" } else { "multi_pop_back" };
            format!(
                "    let mut sp = sp;\n    let _unused = idx;\n    let r: felt252 = match sp.{which}::<{n_pop}>() {{ Some(b) => {{ let a: [[felt252; {k}]; {n_pop}] = (*b).unbox(); let s = a.span(); let e: [felt252; {k}] = *s.at({np1}); *e.span().at({km1}) + sp.len().into() * 100 }}, None => 61 + sp.len().into() }};\n    r * 2 + arr.len().into()\n"
            )
        }
    };
    format!("fn gen_array(n: u8, idx: u32) -> felt252 {{\n{prologue}{body}}}\n")
}

/// Writes `n` generated single-function files under `dir`; returns their paths.
pub fn generate(dir: &Path, seed: u64, n: usize) -> Vec<PathBuf> {
    let _ = std::fs::create_dir_all(dir);
    let mut out = vec![];
    for k in 0..n {
        let mut rng = Rng::stream(simcore::mix(seed, k as u64), "c03-gen");
        let (kind, src) = match if k % 32 == 7 { 7 } else { (k % 16) % 7 + 8 * ((k % 16) / 7).min(1) } {
            0 | 1 | 4 | 8 | 9 | 12 | 15 => ("divrem", div_rem(&mut rng)),
            2 | 5 | 10 | 13 => ("downcast", downcast_inst(&mut rng)),
            3 | 6 | 11 | 14 => ("constrain", constrain_inst(&mut rng)),
            _ => ("compose", compose(&mut rng)),
        };
        let p = dir.join(format!("gen_{kind}_{k:04}.cairo"));
        if std::fs::write(&p, src).is_ok() {
            out.push(p);
        }
    }
    // Array instantiations come after (and on their own PRNG streams), so the files above are the
    // same for a given seed whether or not these exist.
    for k in 0..n / 8 {
        let mut rng = Rng::stream(simcore::mix(seed, k as u64), "c03-gen-array");
        let p = dir.join(format!("gen_array_{k:04}.cairo"));
        if std::fs::write(&p, array_inst(&mut rng)).is_ok() {
            out.push(p);
        }
    }
    out
}
