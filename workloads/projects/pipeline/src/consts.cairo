pub const BASE: u32 = 10;
pub const LIMIT: u32 = BASE * BASE + 5;
pub const OFFSET: felt252 = 'off';
pub const TABLE: [u32; 4] = [1, 2, 3, 5];

pub fn table_sum() -> u32 {
    let [a, b, c, d] = TABLE;
    a + b + c + d
}
