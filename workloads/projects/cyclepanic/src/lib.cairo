mod m;
mod n;
