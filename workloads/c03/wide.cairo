// u256 / u512 arithmetic: WideMul128, Uint256DivMod, Uint512DivModByUint256, Uint256SquareRoot,
// U256InvModN and the u128 guarantee (deferred check) path.
use core::num::traits::{OverflowingAdd, OverflowingSub, OverflowingMul, WrappingAdd, WrappingSub, WrappingMul, CheckedAdd, CheckedSub, CheckedMul, Sqrt, WideMul};
use core::integer::{u512, u512_safe_div_rem_by_u256, u256_wide_mul};
use core::math::{u256_inv_mod, u256_mul_mod_n, u256_div_mod_n};

fn add_u256(a: u256, b: u256) -> u256 { a + b }
fn sub_u256(a: u256, b: u256) -> u256 { a - b }
fn mul_u256(a: u256, b: u256) -> u256 { a * b }
fn div_u256(a: u256, b: NonZero<u256>) -> u256 { let (q, _r) = DivRem::div_rem(a, b); q }
fn rem_u256(a: u256, b: NonZero<u256>) -> u256 { let (_q, r) = DivRem::div_rem(a, b); r }
fn divrem_u256(a: u256, b: NonZero<u256>) -> (u256, u256) { DivRem::div_rem(a, b) }
fn lt_u256(a: u256, b: u256) -> bool { a < b }
fn le_u256(a: u256, b: u256) -> bool { a <= b }
fn oadd_u256(a: u256, b: u256) -> (u256, bool) { a.overflowing_add(b) }
fn osub_u256(a: u256, b: u256) -> (u256, bool) { a.overflowing_sub(b) }
fn omul_u256(a: u256, b: u256) -> (u256, bool) { a.overflowing_mul(b) }
fn wmul_u256(a: u256, b: u256) -> u256 { a.wrapping_mul(b) }
fn cmul_u256(a: u256, b: u256) -> Option<u256> { a.checked_mul(b) }
fn sqrt_u256(a: u256) -> u128 { a.sqrt() }
fn widemul_u256(a: u256, b: u256) -> u512 { u256_wide_mul(a, b) }
fn widemul_u256_trait(a: u256, b: u256) -> u512 { a.wide_mul(b) }
fn divrem_u512(a: u512, b: NonZero<u256>) -> (u512, u256) { u512_safe_div_rem_by_u256(a, b) }
fn inv_mod_u256(a: u256, n: NonZero<u256>) -> Option<NonZero<u256>> { u256_inv_mod(a, n) }
fn mul_mod_u256(a: u256, b: u256, n: NonZero<u256>) -> u256 { u256_mul_mod_n(a, b, n) }
fn div_mod_u256(a: u256, b: u256, n: NonZero<u256>) -> Option<u256> { u256_div_mod_n(a, b, n) }

// The guarantee produced by u128_guarantee_mul is verified in a destructor; make it travel
// through a panic path too.
fn widemul_u128_then_panic(a: u128, b: u128, c: u8) -> u256 {
    let w = a.wide_mul(b);
    let d: u8 = c + 200;
    if d == 255 {
        return w + 1;
    }
    w
}
fn widemul_u128_branch(a: u128, b: u128, flag: bool) -> u128 {
    let w = a.wide_mul(b);
    if flag { w.low } else { w.high }
}
fn u128_byte_rev(a: u128) -> u128 { core::integer::u128_byte_reverse(a) }
fn u128s_from_felt(a: felt252) -> u256 { a.into() }
