// Circuits: EvalCircuit (observed, not forged) and AllocSegment in circuit input initialisation.
use core::circuit::{
    AddInputResultTrait, CircuitElement, CircuitInput, CircuitInputs, CircuitModulus,
    CircuitOutputsTrait, EvalCircuitTrait, circuit_add, circuit_inverse, circuit_mul, circuit_sub, u384, u96,
};

fn circ(a: u96, b: u96, m: u96) -> felt252 {
    let in1 = CircuitElement::<CircuitInput<0>> {};
    let in2 = CircuitElement::<CircuitInput<1>> {};
    let add = circuit_add(in1, in2);
    let inv = circuit_inverse(add);
    let sub = circuit_sub(inv, in2);
    let mul = circuit_mul(inv, sub);
    let Some(modulus) = TryInto::<_, CircuitModulus>::try_into([m, 0, 0, 0]) else { return 1; };
    match (mul, add, inv).new_inputs().next([a, 0, 0, 0]).next([b, 0, 0, 0]).done().eval(modulus) {
        Ok(outputs) => {
            let x: u384 = outputs.get_output(mul);
            let y: u384 = outputs.get_output(add);
            x.limb0.into() * 3 + y.limb0.into()
        },
        Err(_) => 2,
    }
}
fn circ_no_inverse(a: u96, m: u96) -> felt252 {
    let in0 = CircuitElement::<CircuitInput<0>> {};
    let out0 = circuit_inverse(in0);
    let Some(modulus) = TryInto::<_, CircuitModulus>::try_into([m, 0, 0, 0]) else { return 1; };
    match (out0,).new_inputs().next([a, 0, 0, 0]).done().eval(modulus) {
        Ok(outputs) => { let x: u384 = outputs.get_output(out0); x.limb0.into() },
        Err(_) => 2,
    }
}
