//! simdb — C13 (edit histories) and C12 (schedules / query histories) on the real salsa database.

mod c12;
#[cfg(feature = "shuttle")]
mod preempt;
mod c13;
mod dbx;
mod edits;
mod project;

use std::path::{Path, PathBuf};

use simcore::harness_error;

#[cfg(feature = "shuttle")]
#[global_allocator]
static GLOBAL: preempt::PreemptAlloc = preempt::PreemptAlloc;

fn main() {
    if std::env::var("VERIF_PANIC_TRACE").is_ok() {
        std::panic::set_hook(Box::new(|info| {
            eprintln!("PANIC: {info}\n{}", std::backtrace::Backtrace::force_capture());
        }));
    } else {
        std::panic::set_hook(Box::new(|_| {}));
    }
    for v in ["CAIRO_DEBUG_SIERRA_GEN", "CAIRO_DEBUG_GENERATED_CODE", "PRINT_CASM_BYTECODE_OFFSETS", "MAX_STACK_TRACE_DEPTH"] {
        // SAFETY: single-threaded at this point.
        unsafe { std::env::remove_var(v) };
    }
    dbx::install_subscriber();
    // Watchdog of the whole process: never hang the caller.
    {
        let limit = simcore::env_usize("VERIF_BUDGET_S", 1500) as u64 + 3600;
        std::thread::spawn(move || {
            std::thread::sleep(std::time::Duration::from_secs(limit));
            eprintln!("HARNESS-ERROR: watchdog: still running after {limit}s");
            std::process::exit(simcore::EXIT_HARNESS);
        });
    }
    let args: Vec<String> = std::env::args().collect();
    let cmd = args.get(1).map(|s| s.as_str()).unwrap_or("");
    let mut tier = std::env::var("VERIF_TIER").unwrap_or_else(|_| "quick".into());
    let mut workers = simcore::env_usize("VERIF_WORKERS", std::thread::available_parallelism().map(|n| n.get()).unwrap_or(4));
    let mut budget_s = simcore::env_usize("VERIF_BUDGET_S", 1500) as u64;
    let mut log = None;
    let mut only = None;
    let mut histories = None;
    let mut quiet = false;
    let mut level2 = cfg!(feature = "shuttle");
    let mut runs = None;
    let mut no_evidence = false;
    let mut positional = vec![];
    let mut i = 2;
    while i < args.len() {
        match args[i].as_str() {
            "--tier" => { tier = args[i + 1].clone(); i += 1; }
            "--workers" => { workers = args[i + 1].parse().unwrap(); i += 1; }
            "--budget-s" => { budget_s = args[i + 1].parse().unwrap(); i += 1; }
            "--log" => { log = Some(PathBuf::from(&args[i + 1])); i += 1; }
            "--only" => { only = Some(args[i + 1].clone()); i += 1; }
            "--histories" => { histories = Some(args[i + 1].parse().unwrap()); i += 1; }
            "--quiet" => quiet = true,
            "--level2" => level2 = true,
            "--no-evidence" => no_evidence = true,
            "--runs" => { runs = Some(args[i + 1].parse().unwrap()); i += 1; }
            other => positional.push(other.to_string()),
        }
        i += 1;
    }
    let projects_dir = simcore::verif_root().join("workloads/projects");
    let code = match cmd {
        "c13" => c13::run(c13::Opts { tier, workers, budget_s, log, only, histories, no_evidence }, project::Project::load_all(&projects_dir)),
        "c12" => {
            if level2 != cfg!(feature = "shuttle") {
                harness_error("level 2 needs the shuttle build of simdb (target-shuttle), level 1 the plain build");
            }
            let o = c12::Opts { tier: tier.clone(), workers, budget_s, log: log.clone(), only, runs, level2 };
            let s = c12::run_level(&o);
            if let Some(p) = &log {
                std::fs::write(p, s.log.join("\n") + "\n").unwrap_or_else(|e| harness_error(&format!("log: {e}")));
            }
            if !no_evidence {
                c12::write_summary(&s, level2);
            }
            s.exit
        }
        "c12-exec" => c12::exec_child(),
        "c13-fresh" => c13::fresh_child(),
        "c12-evidence" => {
            c12::write_evidence(&tier);
            0
        }
        "replay" => {
            let p = positional.first().unwrap_or_else(|| harness_error("replay <file>"));
            let v: serde_json::Value = serde_json::from_str(&std::fs::read_to_string(p).unwrap_or_else(|e| harness_error(&format!("{e}")))).unwrap_or_else(|e| harness_error(&format!("{e}")));
            match v["property"].as_str() {
                Some("C13") => c13::replay(Path::new(p), quiet),
                Some("C12") => c12::replay(Path::new(p), quiet),
                _ => harness_error("unknown replay kind"),
            }
        }
        _ => harness_error("usage: simdb c13|c12|replay"),
    };
    std::process::exit(code);
}
