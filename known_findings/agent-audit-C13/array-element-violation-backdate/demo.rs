//! C13 demo: after a 3-revision history of *valid, diagnostics-free* programs, the long-lived
//! database panics inside `DiagnosticsReporter::check` (salsa backdate violation raised for the
//! `array_element_violation` query), while a fresh database compiles the same final sources fine.
//!
//! Copy to `crates/cairo-lang-compiler/tests/c13_array_element_violation.rs` and run:
//!   cargo test --offline -p cairo-lang-compiler --test c13_array_element_violation
//! (the default `dev`/`test` profile, i.e. with debug assertions, as used by the repo's own tests).

use std::panic::{AssertUnwindSafe, catch_unwind};
use std::path::PathBuf;

use cairo_lang_compiler::db::RootDatabase;
use cairo_lang_compiler::diagnostics::DiagnosticsReporter;
use cairo_lang_filesystem::db::{CrateConfiguration, FilesGroup};
use cairo_lang_filesystem::ids::{CrateId, CrateInput, Directory, FileLongId, SmolStrId};
use cairo_lang_filesystem::{override_file_content, set_crate_config};
use cairo_lang_sierra_generator::db::SierraGenGroup;
use cairo_lang_sierra_generator::replace_ids::replace_sierra_ids_in_program;
use cairo_lang_utils::Intern;
use salsa::Database;

const ROOT: &str = "/c13_demo_aev";

const REV1: &str = r#"
fn list_sum(lx: List) -> u32 {
    let t: Box<List> = BoxTrait::new(lx);
    let _l = t.unbox();
    0
}
#[derive(Drop)]
enum List {
    Nil,
}
"#;

const REV2: &str = r#"
fn build(n: u32) -> List {
    List::Nil
}
#[derive(Drop)]
enum List {
    Nil,
    Cons: (u32, Box<List>),
}
"#;

const REV3: &str = r#"
fn build(n: u32) -> (u32, Box<List>) {
    (n, BoxTrait::new(List::Nil))
}
#[derive(Drop)]
enum List {
    Nil,
}
"#;

fn new_db() -> RootDatabase {
    let mut db = RootDatabase::builder().detect_corelib().build().unwrap();
    let db_mut: &mut dyn Database = &mut db;
    let crate_id = CrateId::plain(db_mut, SmolStrId::from(db_mut, "proj"));
    set_crate_config!(
        db_mut,
        crate_id,
        Some(CrateConfiguration::default_for_root(Directory::Real(PathBuf::from(ROOT))))
    );
    db
}

fn set_lib(db: &mut RootDatabase, content: &str) {
    let db_mut: &mut dyn Database = db;
    let file_id = FileLongId::OnDisk(PathBuf::from(ROOT).join("lib.cairo")).intern(db_mut);
    override_file_content!(db_mut, file_id, Some(content.into()));
}

fn crate_input(db: &RootDatabase) -> CrateInput {
    let crate_id = CrateId::plain(db, SmolStrId::from(db, "proj"));
    crate_id.long(db).clone().into_crate_input(db)
}

fn panic_msg(e: Box<dyn std::any::Any + Send>) -> String {
    if let Some(s) = e.downcast_ref::<&str>() {
        s.to_string()
    } else if let Some(s) = e.downcast_ref::<String>() {
        s.clone()
    } else if let Some(c) = e.downcast_ref::<salsa::Cancelled>() {
        format!("salsa::Cancelled: {c}")
    } else {
        "<non-string panic>".into()
    }
}

/// The canonical observation: diagnostics, then (if error free) the Sierra program.
fn observe(db: &RootDatabase) -> String {
    let input = crate_input(db);
    let diag = catch_unwind(AssertUnwindSafe(|| {
        let mut s = String::new();
        let has_errors = DiagnosticsReporter::write_to_string(&mut s)
            .with_crates(std::slice::from_ref(&input))
            .allow_warnings()
            .check(db);
        (s, has_errors)
    }));
    let (diag, has_errors) = match diag {
        Ok(x) => x,
        Err(e) => return format!("PANIC in diagnostics: {}", panic_msg(e)),
    };
    if has_errors {
        return format!("diagnostics:\n{diag}\n<no sierra: errors>");
    }
    let sierra = catch_unwind(AssertUnwindSafe(|| {
        let crate_id = CrateId::plain(db, SmolStrId::from(db, "proj"));
        match db.get_sierra_program(vec![crate_id]) {
            Ok(p) => format!("{}", replace_sierra_ids_in_program(db, &p.program)),
            Err(_) => "<sierra: Err>".to_string(),
        }
    }));
    match sierra {
        Ok(s) => format!("diagnostics:\n{diag}\nsierra:\n{s}"),
        Err(e) => format!("diagnostics:\n{diag}\nPANIC in sierra: {}", panic_msg(e)),
    }
}

#[test]
fn incremental_equals_fresh_after_recursive_enum_edit() {
    // The long-lived database: three edits, the canonical observation after each of them.
    let mut db = new_db();
    let mut incremental = vec![];
    for rev in [REV1, REV2, REV3] {
        set_lib(&mut db, rev);
        incremental.push(observe(&db));
    }
    // Fresh databases for the same contents.
    let mut fresh = vec![];
    for rev in [REV1, REV2, REV3] {
        let mut db = new_db();
        set_lib(&mut db, rev);
        fresh.push(observe(&db));
    }
    for i in 0..3 {
        assert_eq!(
            incremental[i],
            fresh[i],
            "incremental != fresh after edit #{}",
            i + 1
        );
    }
}
