use crate::kinds::{Mode, Tag};
use crate::quota::Quota;
use crate::tariff::Tariff;

#[starknet::interface]
pub trait IGuard<TState> {
    fn keeper(self: @TState) -> felt252;
    fn hand_over(ref self: TState, next: felt252);
}

#[starknet::interface]
pub trait ISwitch<TState> {
    fn mode(self: @TState) -> Mode;
    fn set_mode(ref self: TState, mode: Mode);
}

#[starknet::interface]
pub trait ICounter<TState> {
    fn bump(ref self: TState, tag: Tag) -> u64;
    fn seen(self: @TState) -> u64;
}

#[starknet::interface]
pub trait IMarket<TState> {
    fn tune(ref self: TState, quota: Quota, tariff: Tariff, tag: Tag);
    fn trade(ref self: TState, amount: u64) -> u64;
    fn volume(self: @TState) -> u64;
    fn quote(self: @TState, amounts: Span<u64>) -> Array<u64>;
}

#[starknet::interface]
pub trait ILedger<TState> {
    fn record(ref self: TState, who: felt252, tariff: Tariff, quota: Quota);
    fn tariff_of(self: @TState, who: felt252) -> Tariff;
    fn pair(self: @TState, who: felt252) -> (Tariff, Quota);
}
