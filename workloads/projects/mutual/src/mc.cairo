pub fn tri_a(n: u32) -> felt252 {
    if n == 0 {
        return 10;
    }
    tri_b(n - 1) + 1
}

pub fn tri_b(n: u32) -> felt252 {
    if n == 0 {
        return 20;
    }
    super::md::tri_c(n - 1) + 2
}

pub fn self_rec(n: u32) -> u32 {
    if n < 2 {
        return n;
    }
    self_rec(n - 1) + self_rec(n - 2)
}
