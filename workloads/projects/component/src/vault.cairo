#[starknet::interface]
pub trait IVault<TState> {
    fn balance(self: @TState) -> u128;
    fn deposit(ref self: TState, amount: u128);
}

#[starknet::contract]
pub mod vault {
    use starknet::storage::{StoragePointerReadAccess, StoragePointerWriteAccess};
    use super::super::ownable::ownable_component;

    component!(path: ownable_component, storage: ownable, event: OwnableEvent);

    #[abi(embed_v0)]
    impl OwnableImpl = ownable_component::OwnableImpl<ContractState>;
    impl OwnableInternal = ownable_component::InternalImpl<ContractState>;

    #[storage]
    struct Storage {
        total: u128,
        #[substorage(v0)]
        ownable: ownable_component::Storage,
    }

    #[event]
    #[derive(Drop, starknet::Event)]
    enum Event {
        #[flat]
        OwnableEvent: ownable_component::Event,
    }

    #[constructor]
    fn constructor(ref self: ContractState, owner: felt252) {
        self.ownable.init(owner);
    }

    #[abi(embed_v0)]
    impl VaultImpl of super::IVault<ContractState> {
        fn balance(self: @ContractState) -> u128 {
            self.total.read()
        }
        fn deposit(ref self: ContractState, amount: u128) {
            self.total.write(self.total.read() + amount);
        }
    }
}
