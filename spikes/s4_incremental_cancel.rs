use std::path::PathBuf;
use std::sync::atomic::{AtomicUsize, AtomicBool, Ordering};
use std::sync::Mutex;
use std::time::Instant;

use cairo_lang_compiler::db::RootDatabase;
use cairo_lang_compiler::diagnostics::DiagnosticsReporter;
use cairo_lang_compiler::project::setup_project;
use cairo_lang_compiler::{CompilerConfig, compile_prepared_db_program};
use cairo_lang_filesystem::db::{init_dev_corelib, FilesGroup};
use cairo_lang_filesystem::ids::{CrateInput, FileLongId};
use cairo_lang_filesystem::override_file_content;
use cairo_lang_utils::Intern;
use salsa::Database;

static EXEC_COUNT: AtomicUsize = AtomicUsize::new(0);
static CANCEL_AT: AtomicUsize = AtomicUsize::new(usize::MAX);
static TOKEN: Mutex<Option<salsa::CancellationToken>> = Mutex::new(None);
static FIRED: AtomicBool = AtomicBool::new(false);

struct Sub;
struct Vis(bool);
impl tracing::field::Visit for Vis {
    fn record_debug(&mut self, field: &tracing::field::Field, value: &dyn std::fmt::Debug) {
        if field.name() == "message" && format!("{value:?}").ends_with("executing query") { self.0 = true; }
    }
}
impl tracing::Subscriber for Sub {
    fn enabled(&self, m: &tracing::Metadata<'_>) -> bool { *m.level() <= tracing::Level::INFO && m.target().starts_with("salsa") }
    fn new_span(&self, _: &tracing::span::Attributes<'_>) -> tracing::span::Id { tracing::span::Id::from_u64(1) }
    fn record(&self, _: &tracing::span::Id, _: &tracing::span::Record<'_>) {}
    fn record_follows_from(&self, _: &tracing::span::Id, _: &tracing::span::Id) {}
    fn event(&self, e: &tracing::Event<'_>) {
        let mut v = Vis(false);
        e.record(&mut v);
        if v.0 {
            let n = EXEC_COUNT.fetch_add(1, Ordering::SeqCst);
            if n == CANCEL_AT.load(Ordering::SeqCst) {
                if let Some(t) = TOKEN.lock().unwrap().as_ref() { t.cancel(); FIRED.store(true, Ordering::SeqCst); }
            }
        }
    }
    fn enter(&self, _: &tracing::span::Id) {}
    fn exit(&self, _: &tracing::span::Id) {}
}

fn observe(db: &RootDatabase, main: &[CrateInput]) -> String {
    let mut diags = String::new();
    let cfg = CompilerConfig { replace_ids: true, diagnostics_reporter: DiagnosticsReporter::write_to_string(&mut diags).with_crates(main), ..Default::default() };
    let ids = CrateInput::into_crate_ids(db, main.to_vec());
    let prog = compile_prepared_db_program(db, ids, cfg);
    match prog { Ok(p) => format!("OK\n{diags}\n{p}"), Err(e) => format!("ERR {e}\n{diags}") }
}

fn fresh(path: &PathBuf, content: &str) -> String {
    let mut db = RootDatabase::builder().build().unwrap();
    init_dev_corelib(&mut db, PathBuf::from("/repo/corelib/src"));
    let main = setup_project(&mut db, path).unwrap();
    {
        let dbm: &mut dyn Database = &mut db;
        let file_id = FileLongId::OnDisk(path.clone()).intern(dbm);
        override_file_content!(dbm, file_id, Some(content.to_string().into()));
    }
    observe(&db, &main)
}

fn main() {
    tracing::subscriber::set_global_default(Sub).unwrap();
    let path = PathBuf::from(std::env::args().nth(1).unwrap_or("/repo/examples/fib_loop.cairo".into()));
    let orig = std::fs::read_to_string(&path).unwrap();
    let mut db = RootDatabase::builder().build().unwrap();
    init_dev_corelib(&mut db, PathBuf::from("/repo/corelib/src"));
    let main = setup_project(&mut db, &path).unwrap();
    let t = Instant::now();
    let base = observe(&db, &main);
    println!("initial observe {:?}, {} queries executed", t.elapsed(), EXEC_COUNT.load(Ordering::SeqCst));
    let edits: Vec<String> = vec![
        format!("// hello\n{orig}"),
        orig.replace("fn fib", "fn fib2"),
        orig[..orig.len() / 2].to_string(),
        format!("{orig}\nfn extra(a: felt252) -> felt252 {{ a + 1 }}\n"),
        format!("fn first() -> u8 {{ 300 }}\n{orig}"),
        orig.replace("{", "{ "),
        orig.clone(),
    ];
    let mut mismatches = 0;
    for (i, content) in edits.iter().enumerate() {
        {
            let dbm: &mut dyn Database = &mut db;
            let file_id = FileLongId::OnDisk(path.clone()).intern(dbm);
            override_file_content!(dbm, file_id, Some(content.clone().into()));
        }
        // A cancelled query on a snapshot, cancel at the 5th executed query.
        {
            let snap = db.snapshot();
            *TOKEN.lock().unwrap() = Some(snap.cancellation_token());
            FIRED.store(false, Ordering::SeqCst);
            CANCEL_AT.store(EXEC_COUNT.load(Ordering::SeqCst) + 5 + i, Ordering::SeqCst);
            let r = salsa::Cancelled::catch(std::panic::AssertUnwindSafe(|| observe(&snap, &main)));
            println!("  snapshot query: fired={} result={}", FIRED.load(Ordering::SeqCst), match &r { Ok(_) => "completed".to_string(), Err(c) => format!("cancelled {c:?}") });
            CANCEL_AT.store(usize::MAX, Ordering::SeqCst);
            *TOKEN.lock().unwrap() = None;
        }
        let before = EXEC_COUNT.load(Ordering::SeqCst);
        let t = Instant::now();
        let inc = observe(&db, &main);
        let ti = t.elapsed();
        let n_inc = EXEC_COUNT.load(Ordering::SeqCst) - before;
        let t = Instant::now();
        let fr = fresh(&path, content);
        let tf = t.elapsed();
        let eq = inc == fr;
        if !eq { mismatches += 1; println!("MISMATCH at edit {i}:\n--- inc\n{}\n--- fresh\n{}", &inc[..inc.len().min(1500)], &fr[..fr.len().min(1500)]); }
        println!("edit {i}: eq={eq} inc {:?} ({n_inc} queries) fresh {:?} head={:?}", ti, tf, inc.lines().next());
    }
    println!("base==last? {}", base == observe(&db, &main));
    println!("mismatches {mismatches}");
}
