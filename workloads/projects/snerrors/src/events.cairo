#[starknet::contract]
mod eventful {
    #[storage]
    struct Storage {}

    #[event]
    #[derive(Drop, starknet::Event)]
    enum Event {
        Ping: Ping,
        #[flat]
        Inner: Inner,
        Plain: Plain,
    }

    #[derive(Drop, starknet::Event)]
    struct Ping {
        #[key]
        id: u32,
        value: u64,
    }

    #[derive(Drop, starknet::Event)]
    struct Plain {
        id: u32,
        #[key]
        value: u64,
    }

    #[derive(Drop, starknet::Event)]
    enum Inner {
        Ping: Ping,
        Pong: Plain,
    }

    #[external(v0)]
    fn fire(ref self: ContractState, id: u32) {
        self.emit(Ping { id, value: 7 });
        self.emit(Inner::Pong(Plain { id, value: 8 }));
    }
}
