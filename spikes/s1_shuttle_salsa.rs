use std::path::PathBuf;
use std::time::Instant;

use cairo_lang_compiler::db::RootDatabase;
use cairo_lang_compiler::project::setup_project;
use cairo_lang_compiler::{CompilerConfig, compile_prepared_db_program};
use cairo_lang_compiler::diagnostics::DiagnosticsReporter;
use cairo_lang_filesystem::db::init_dev_corelib;
use cairo_lang_filesystem::ids::CrateInput;
use cairo_lang_utils::CloneableDatabase;
use cairo_lang_semantic::db::SemanticGroup;
use cairo_lang_lowering::db::LoweringGroup;
use cairo_lang_defs::db::DefsGroup;
use cairo_lang_utils::Intern;

fn compile(db: &RootDatabase, main: &[CrateInput]) -> String {
    let mut diags = String::new();
    let cfg = CompilerConfig {
        replace_ids: true,
        diagnostics_reporter: DiagnosticsReporter::write_to_string(&mut diags).with_crates(main),
        ..Default::default()
    };
    let ids = CrateInput::into_crate_ids(db, main.to_vec());
    let prog = compile_prepared_db_program(db, ids, cfg);
    match prog {
        Ok(p) => p.to_string(),
        Err(e) => format!("ERR {e}\n{diags}"),
    }
}

fn scenario(path: &str, nthreads: usize) -> String {
    let t0 = Instant::now();
    let mut db = RootDatabase::builder().build().unwrap();
    init_dev_corelib(&mut db, PathBuf::from("/repo/corelib/src"));
    let main = setup_project(&mut db, &PathBuf::from(path)).unwrap();
    // Warm-up threads: each runs module diagnostics on a clone.
    #[cfg(feature = "shuttle")]
    {
        let mut hs = vec![];
        for i in 0..nthreads {
            let c = db.snapshot();
            let main = main.clone();
            hs.push(shuttle::thread::spawn(move || {
                let db = &c;
                for ci in &main {
                    let cid = ci.clone().into_crate_long_id(db).intern(db);
                    let mods = db.crate_modules(cid);
                    for (k, m) in mods.iter().enumerate() {
                        if k % 2 == i % 2 {
                            let _ = db.module_semantic_diagnostics(*m);
                            let _ = db.module_lowering_diagnostics(*m);
                        }
                    }
                }
            }));
        }
        for h in hs { h.join().unwrap(); }
    }
    let _ = nthreads;
    let s = compile(&db, &main);
    eprintln!("scenario {:?}", t0.elapsed());
    s
}

fn main() {
    let path = std::env::args().nth(1).unwrap_or("/repo/examples/fib.cairo".into());
    let nthreads: usize = std::env::args().nth(2).map(|s| s.parse().unwrap()).unwrap_or(0);
    let iters: usize = std::env::args().nth(3).map(|s| s.parse().unwrap()).unwrap_or(1);
    #[cfg(feature = "shuttle")]
    {
        use shuttle::scheduler::RandomScheduler;
        let mut cfg = shuttle::Config::new();
        cfg.stack_size = 512 << 20;
        cfg.max_steps = shuttle::MaxSteps::None;
        cfg.silence_warnings = true;
        let out = std::sync::Arc::new(std::sync::Mutex::new(Vec::<String>::new()));
        let out2 = out.clone();
        let p = path.clone();
        let sched = RandomScheduler::new_from_seed(12345, iters);
        shuttle::Runner::new(sched, cfg).run(move || {
            let s = scenario(&p, nthreads);
            out2.lock().unwrap().push(s);
        });
        let v = out.lock().unwrap();
        eprintln!("runs {} all-equal {}", v.len(), v.iter().all(|s| s == &v[0]));
        eprintln!("len {}", v[0].len());
    }
    #[cfg(not(feature = "shuttle"))]
    {
        let s = scenario(&path, nthreads);
        eprintln!("len {}", s.len());
        let _ = iters;
    }
}
