// A project that does NOT compile: its observable is the list of diagnostics, which must not depend
// on which module was analysed first, on interning order, or on the schedule.
mod shapes;
mod ambiguous;
mod explicit;
mod cycles;
mod flow;
mod generic;
mod dup;

fn main() -> felt252 {
    ambiguous::which() + explicit::round() + flow::moved()
}
