mod part;
mod wiring;
mod events;
mod iface;
mod items;
