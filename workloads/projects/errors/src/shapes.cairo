pub trait Area {
    fn area() -> felt252;
}
pub impl Square of Area {
    fn area() -> felt252 {
        4
    }
}
pub impl Circle of Area {
    fn area() -> felt252 {
        3
    }
}
pub impl Triangle of Area {
    fn area() -> felt252 {
        2
    }
}

pub trait Named<T> {
    fn name(self: @T) -> felt252;
}
pub impl NamedU8 of Named<u8> {
    fn name(self: @u8) -> felt252 {
        'u8'
    }
}
pub impl NamedU8Again of Named<u8> {
    fn name(self: @u8) -> felt252 {
        'u8 again'
    }
}

// A method that also exists in a corelib trait that is not in the prelude: the "consider importing"
// suggestion lists candidates from two crates.
pub trait MySqrt<T> {
    fn sqrt(self: T) -> T;
}
pub impl MySqrtU32 of MySqrt<u32> {
    fn sqrt(self: u32) -> u32 {
        self / 2
    }
}
pub trait MyPow<T> {
    fn pow(self: T, exp: u32) -> T;
}
pub impl MyPowU64 of MyPow<u64> {
    fn pow(self: u64, exp: u32) -> u64 {
        self + exp.into()
    }
}
