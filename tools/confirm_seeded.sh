#!/usr/bin/env bash
# confirm_seeded.sh <confirm-worktree> <seeded-dir> <crate> <test|example>
# In a scratch worktree: (1) demo with the patch must FAIL, (2) demo without the patch must PASS,
# (3) full suite with the patch must match the baseline (only the always-failing test fails).
# Writes <seeded-dir>/confirm.log and confirm.json.
set -u
WT="$1"; D="$2"; CRATE="${3:-cairo-lang-compiler}"; KIND="${4:-test}"
export CARGO_PROFILE_DEV_DEBUG=0 CARGO_PROFILE_TEST_DEBUG=0 CARGO_INCREMENTAL=0 CARGO_NET_OFFLINE=true
LOG="$D/confirm.log"; : > "$LOG"
cd "$WT" || exit 2
git checkout -q -- . 2>>"$LOG"; git clean -fdq crates 2>>"$LOG"
T="seeded_demo_$(basename "$D" | tr -c 'a-zA-Z0-9' '_')"
if [ "$KIND" = test ]; then SUB=tests; else SUB=examples; fi
if [ "$CRATE" = tests ]; then BASE="tests"; else BASE="crates/$CRATE"; fi
mkdir -p "$BASE/$SUB"; cp "$D/demo.rs" "$BASE/$SUB/$T.rs"
run_demo() { if [ "$KIND" = test ]; then cargo test --offline -j 8 -p "$CRATE" --test "$T"; else cargo run --offline -j 8 -p "$CRATE" --example "$T"; fi; }
git apply "$D/patch.diff" >>"$LOG" 2>&1 || { echo "patch does not apply" >>"$LOG"; echo '{"applies":false}' > "$D/confirm.json"; exit 1; }
echo "== demo WITH patch" >>"$LOG"; run_demo >>"$LOG" 2>&1; with=$?
echo "== full suite WITH patch" >>"$LOG"
cargo nextest run --workspace --no-fail-fast --offline --test-threads 8 --build-jobs 8 > "$D/suite.log" 2>&1
grep -E "^\s+(FAIL|Summary)" "$D/suite.log" | sort -u >>"$LOG"
fails=$(grep -E "^\s+FAIL " "$D/suite.log" | grep -v "$T" | sed 's/.*) //' | sort -u | tr '\n' ';')
summary=$(grep -E "Summary" "$D/suite.log" | tail -1 | sed 's/^ *//')
git apply -R "$D/patch.diff" >>"$LOG" 2>&1
echo "== demo WITHOUT patch" >>"$LOG"; run_demo >>"$LOG" 2>&1; without=$?
rm -f "$BASE/$SUB/$T.rs"; rmdir "$BASE/$SUB" 2>/dev/null
git checkout -q -- . 2>>"$LOG"
printf '{"applies":true,"demo_exit_with_patch":%d,"demo_exit_without_patch":%d,"suite_summary":"%s","suite_failures_with_patch":"%s"}\n' "$with" "$without" "$summary" "$fails" > "$D/confirm.json"
tail -c 300 "$D/suite.log" > /dev/null; rm -f "$D/suite.log"
cat "$D/confirm.json"
