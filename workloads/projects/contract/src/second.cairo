#[starknet::interface]
pub trait ITiny<TState> {
    fn ping(self: @TState) -> felt252;
}

#[starknet::contract]
pub mod tiny {
    #[storage]
    struct Storage {}

    #[abi(embed_v0)]
    impl TinyImpl of super::ITiny<ContractState> {
        fn ping(self: @ContractState) -> felt252 {
            'pong'
        }
    }
}
