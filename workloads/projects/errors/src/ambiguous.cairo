use super::shapes::{Area, Named};

pub fn which() -> felt252 {
    Area::area()
}

pub fn name_of(x: u8) -> felt252 {
    x.name()
}

pub fn second() -> felt252 {
    let a = Area::area();
    let b = Area::area();
    a + b
}
