pub mod guard;
pub mod switch;
pub mod counter;
