use super::shapes::{Area, Circle, Triangle, NamedU8Again, Named};

pub fn round() -> felt252 {
    Circle::area() + Triangle::area()
}

pub fn again(x: u8) -> felt252 {
    NamedU8Again::name(@x)
}

fn unused_warning() {
    let x = 5;
}

fn macro_errors_explicit(x: u8) -> ByteArray {
    format!("{} {}", x,  undefined_explicit)
}
