pub impl ADrop<T, +crate::t::Foo<T>> of Drop<crate::ty::MyType>;
