use mathlib::Fraction;
use mathlib::ops::sum_all;

pub fn count(items: Span<Fraction>) -> u64 {
    let total = sum_all(items);
    total.num + items.len().into()
}
