mod t;
mod a;
mod b;
mod user;
