// BoundedInt libfuncs with chosen ranges: the three div_rem algorithms (KnownSmallRhs,
// KnownSmallQuotient, KnownSmallLhs), constrain at several boundaries, trims, arithmetic over
// negative and zero-crossing ranges, and downcasts between ranges (casts.rs / range_reduction.rs
// pick their CASM by the ranges).
#[feature("bounded-int-utils")]
use core::internal::bounded_int::{
    self, AddHelper, BoundedInt, ConstrainHelper, DivRemHelper, MulHelper, SubHelper, TrimMaxHelper, TrimMinHelper, UnitInt, downcast, upcast,
};
use core::internal::OptionRev;

// ---- div_rem: KnownSmallRhs (rhs.upper * 2^128 < prime)
impl DivRemSmall of DivRemHelper<BoundedInt<128, 255>, BoundedInt<3, 8>> {
    type DivT = BoundedInt<16, 85>;
    type RemT = BoundedInt<0, 7>;
}
fn div_small(a: BoundedInt<128, 255>, b: NonZero<BoundedInt<3, 8>>) -> (felt252, felt252) {
    let (q, r) = bounded_int::div_rem(a, b);
    (upcast(q), upcast(r))
}
impl DivRemU128ByU64 of DivRemHelper<u128, BoundedInt<1, 0xffffffffffffffff>> {
    type DivT = BoundedInt<0, 0xffffffffffffffffffffffffffffffff>;
    type RemT = BoundedInt<0, 0xfffffffffffffffe>;
}
fn div_u128_by_u64(a: u128, b: NonZero<BoundedInt<1, 0xffffffffffffffff>>) -> (felt252, felt252) {
    let (q, r) = bounded_int::div_rem(a, b);
    (upcast(q), upcast(r))
}
impl DivRemWideBySmall of DivRemHelper<BoundedInt<0, 0x3ffffffffffffffffffffffffffffffffffffffff>, BoundedInt<0x10000000000, 0x3ffffffffffffffffffffffffffff>> {
    type DivT = BoundedInt<0, 0x3ffffffffffffffffffffffffffffff>;
    type RemT = BoundedInt<0, 0x3fffffffffffffffffffffffffffe>;
}
fn div_wide_by_small(a: BoundedInt<0, 0x3ffffffffffffffffffffffffffffffffffffffff>, b: NonZero<BoundedInt<0x10000000000, 0x3ffffffffffffffffffffffffffff>>) -> (felt252, felt252) {
    let (q, r) = bounded_int::div_rem(a, b);
    (upcast(q), upcast(r))
}

// ---- div_rem: KnownSmallQuotient (rhs.upper large, q_max small)
impl DivRemSmallQ of DivRemHelper<BoundedInt<0, 0xffffffffffffffffffffffffffffffffffffffff>, BoundedInt<0x1000000000000000000000000000, 0x100000000000000000000000000000000>> {
    type DivT = BoundedInt<0, 0xfffffffffffff>;
    type RemT = BoundedInt<0, 0xffffffffffffffffffffffffffffffff>;
}
fn div_small_quotient(a: BoundedInt<0, 0xffffffffffffffffffffffffffffffffffffffff>, b: NonZero<BoundedInt<0x1000000000000000000000000000, 0x100000000000000000000000000000000>>) -> (felt252, felt252) {
    let (q, r) = bounded_int::div_rem(a, b);
    (upcast(q), upcast(r))
}
impl DivRemU128ByBig of DivRemHelper<u128, BoundedInt<0x80000000000000000000000000000000, 0xffffffffffffffffffffffffffffffff>> {
    type DivT = BoundedInt<0, 1>;
    type RemT = BoundedInt<0, 0xfffffffffffffffffffffffffffffffe>;
}
fn div_u128_by_big(a: u128, b: NonZero<BoundedInt<0x80000000000000000000000000000000, 0xffffffffffffffffffffffffffffffff>>) -> (felt252, felt252) {
    let (q, r) = bounded_int::div_rem(a, b);
    (upcast(q), upcast(r))
}

// ---- div_rem: KnownSmallLhs (rhs.upper large, quotient may be large, sqrt(lhs.upper) small)
impl DivRemU128Wide of DivRemHelper<u128, BoundedInt<1, 0xffffffffffffffffffffffffffffffff>> {
    type DivT = BoundedInt<0, 0xffffffffffffffffffffffffffffffff>;
    type RemT = BoundedInt<0, 0xfffffffffffffffffffffffffffffffe>;
}
fn div_u128_wide(a: u128, b: NonZero<BoundedInt<1, 0xffffffffffffffffffffffffffffffff>>) -> (felt252, felt252) {
    let (q, r) = bounded_int::div_rem(a, b);
    (upcast(q), upcast(r))
}
impl DivRemLhs200 of DivRemHelper<BoundedInt<0, 0xffffffffffffffffffffffffffffffffffffffffffffffffff>, BoundedInt<0x2000000000000000000, 0x100000000000000000000000000000000>> {
    type DivT = BoundedInt<0, 0x7fffffffffffffffffffffffffffffff>;
    type RemT = BoundedInt<0, 0xffffffffffffffffffffffffffffffff>;
}
fn div_lhs200(a: BoundedInt<0, 0xffffffffffffffffffffffffffffffffffffffffffffffffff>, b: NonZero<BoundedInt<0x2000000000000000000, 0x100000000000000000000000000000000>>) -> (felt252, felt252) {
    let (q, r) = bounded_int::div_rem(a, b);
    (upcast(q), upcast(r))
}

// ---- constrain
impl ConstrainU8At100 of ConstrainHelper<u8, 100> {
    type LowT = BoundedInt<0, 99>;
    type HighT = BoundedInt<100, 255>;
}
fn constrain_u8(a: u8) -> felt252 {
    match bounded_int::constrain::<u8, 100>(a) {
        Ok(lo) => upcast(lo),
        Err(hi) => upcast::<_, felt252>(hi) + 1000,
    }
}
fn constrain_i16_zero(a: i16) -> felt252 {
    match bounded_int::constrain::<i16, 0>(a) {
        Ok(neg) => upcast::<_, felt252>(neg) - 7,
        Err(pos) => upcast::<_, felt252>(pos) + 7,
    }
}
fn constrain_i128_zero(a: i128) -> felt252 {
    match bounded_int::constrain::<i128, 0>(a) {
        Ok(neg) => upcast::<_, felt252>(neg) - 7,
        Err(pos) => upcast::<_, felt252>(pos) + 7,
    }
}
impl ConstrainU128Mid of ConstrainHelper<u128, 0x10000000000000000> {
    type LowT = BoundedInt<0, 0xffffffffffffffff>;
    type HighT = BoundedInt<0x10000000000000000, 0xffffffffffffffffffffffffffffffff>;
}
fn constrain_u128_mid(a: u128) -> felt252 {
    match bounded_int::constrain::<u128, 0x10000000000000000>(a) {
        Ok(lo) => upcast(lo),
        Err(hi) => upcast::<_, felt252>(hi) + 1,
    }
}
impl ConstrainNeg of ConstrainHelper<BoundedInt<-1000, 1000>, -5> {
    type LowT = BoundedInt<-1000, -6>;
    type HighT = BoundedInt<-5, 1000>;
}
fn constrain_neg(a: BoundedInt<-1000, 1000>) -> felt252 {
    match bounded_int::constrain::<BoundedInt<-1000, 1000>, -5>(a) {
        Ok(lo) => upcast::<_, felt252>(lo) * 2,
        Err(hi) => upcast::<_, felt252>(hi) * 3,
    }
}

// ---- trim
fn trim_min_u8(a: u8) -> felt252 {
    match bounded_int::trim_min::<u8>(a) {
        OptionRev::Some(v) => upcast(v),
        OptionRev::None => 999,
    }
}
fn trim_max_i8(a: i8) -> felt252 {
    match bounded_int::trim_max::<i8>(a) {
        OptionRev::Some(v) => upcast(v),
        OptionRev::None => 999,
    }
}
fn trim_max_u128(a: u128) -> felt252 {
    match bounded_int::trim_max::<u128>(a) {
        OptionRev::Some(v) => upcast(v),
        OptionRev::None => 999,
    }
}

// ---- arithmetic
impl AddI8 of AddHelper<i8, i8> {
    type Result = BoundedInt<-256, 254>;
}
impl SubU8 of SubHelper<u8, u8> {
    type Result = BoundedInt<-255, 255>;
}
impl MulI8 of MulHelper<i8, i8> {
    type Result = BoundedInt<{ 127 * -128 }, { 128 * 128 }>;
}
fn bi_add_i8(a: i8, b: i8) -> felt252 { upcast(bounded_int::add(a, b)) }
fn bi_sub_u8(a: u8, b: u8) -> felt252 { upcast(bounded_int::sub(a, b)) }
fn bi_mul_i8(a: i8, b: i8) -> felt252 { upcast(bounded_int::mul(a, b)) }

// ---- downcasts between ranges and from felt252
fn dc_100_200_to_120_180(a: BoundedInt<100, 200>) -> felt252 {
    match downcast::<BoundedInt<100, 200>, BoundedInt<120, 180>>(a) { Some(v) => upcast(v), None => 1 }
}
fn dc_lower_only(a: BoundedInt<-50, 200>) -> felt252 {
    match downcast::<BoundedInt<-50, 200>, BoundedInt<0, 500>>(a) { Some(v) => upcast(v), None => 1 }
}
fn dc_upper_only(a: BoundedInt<0, 1000>) -> felt252 {
    match downcast::<BoundedInt<0, 1000>, BoundedInt<-3, 77>>(a) { Some(v) => upcast(v), None => 1 }
}
fn dc_i128_to_u64(a: i128) -> felt252 {
    match downcast::<i128, u64>(a) { Some(v) => upcast(v), None => 1 }
}
fn dc_u128_to_i8(a: u128) -> felt252 {
    match downcast::<u128, i8>(a) { Some(v) => upcast(v), None => 1 }
}
fn dc_felt_unit0(a: felt252) -> felt252 {
    match downcast::<felt252, UnitInt<0>>(a) { Some(v) => upcast::<_, felt252>(v) + 5, None => 1 }
}
fn dc_felt_120_180(a: felt252) -> felt252 {
    match downcast::<felt252, BoundedInt<120, 180>>(a) { Some(v) => upcast(v), None => 1 }
}
fn dc_felt_neg(a: felt252) -> felt252 {
    match downcast::<felt252, BoundedInt<-1000, -10>>(a) { Some(v) => upcast(v), None => 1 }
}
fn dc_felt_u96(a: felt252) -> felt252 {
    match downcast::<felt252, BoundedInt<0, 0xffffffffffffffffffffffff>>(a) { Some(v) => upcast(v), None => 1 }
}
fn dc_felt_around_2_128(a: felt252) -> felt252 {
    match downcast::<felt252, BoundedInt<0xfffffffffffffffffffffffffffffff0, 0x10000000000000000000000000000000f>>(a) { Some(v) => upcast(v), None => 1 }
}
const ONE_MINUS_P: felt252 = -0x800000000000011000000000000000000000000000000000000000000000000;
fn dc_full_range(a: BoundedInt<ONE_MINUS_P, 0>) -> felt252 {
    match downcast::<BoundedInt<ONE_MINUS_P, 0>, u8>(a) { Some(v) => upcast(v), None => 1 }
}

// ---- downcasts whose target range touches a boundary of the cast strategies: upper end exactly at
// the range-check bound, positive lower bound with the upper end untouched ("below-only"),
// negative lower bound.
fn dc_felt_upper_at_rc_bound(a: felt252) -> felt252 {
    match downcast::<felt252, BoundedInt<0xfffffffffffffffffffffffffffffc18, 0xffffffffffffffffffffffffffffffff>>(a) { Some(v) => upcast(v), None => 1 }
}
fn dc_u8_below_only(a: u8) -> felt252 {
    match downcast::<u8, BoundedInt<10, 255>>(a) { Some(v) => upcast(v), None => 1000 }
}
fn dc_u128_below_only(a: u128) -> felt252 {
    match downcast::<u128, BoundedInt<0x10000000000000000, 0xffffffffffffffffffffffffffffffff>>(a) { Some(v) => upcast(v), None => 1 }
}
fn dc_i8_below_only_neg(a: i8) -> felt252 {
    match downcast::<i8, BoundedInt<-5, 127>>(a) { Some(v) => upcast(v), None => 1000 }
}
fn dc_i128_below_only_neg(a: i128) -> felt252 {
    match downcast::<i128, BoundedInt<-1000, 0x7fffffffffffffffffffffffffffffff>>(a) { Some(v) => upcast(v), None => 1000 }
}
fn dc_i8_above_only(a: i8) -> felt252 {
    match downcast::<i8, BoundedInt<-128, 5>>(a) { Some(v) => upcast(v), None => 1000 }
}
fn dc_u64_above_only(a: u64) -> felt252 {
    match downcast::<u64, BoundedInt<0, 0xfffffffffffffff0>>(a) { Some(v) => upcast(v), None => 1 }
}
