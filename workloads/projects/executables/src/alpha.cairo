#[executable]
fn main(x: felt252) -> felt252 {
    super::shared(x) + 1
}

#[executable]
fn extra(a: u32, b: u32) -> u32 {
    a + b
}
