pub fn pong(n: felt252) -> felt252 {
    if n == 0 {
        1
    } else {
        super::ma::ping(n - 1) + 2
    }
}
