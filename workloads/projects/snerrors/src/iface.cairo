#[starknet::interface]
trait IOdd<TState> {
    fn by_value(self: TState) -> u8;
    fn no_self(x: u8) -> u8;
    fn fine(self: @TState, a: u8) -> u8;
}

#[starknet::contract]
mod twice {
    #[storage]
    struct Storage {
        v: u8,
    }

    #[constructor]
    fn constructor(ref self: ContractState) {}

    #[constructor]
    fn another(ref self: ContractState, a: u8) {}

    #[external(v0)]
    fn lonely(a: u8) -> u8 {
        a
    }
}
