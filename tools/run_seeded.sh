#!/usr/bin/env bash
# run_seeded.sh [ids...]: applies each seeded change to /repo, runs the check registered for its
# property (quick; thorough too when quick is silent), records the outcome, and ALWAYS restores /repo.
# Never run anything else against /repo while this is running.
set -u
cd /verif
ids=("$@"); [ ${#ids[@]} -eq 0 ] && ids=($(ls seeded))
for id in "${ids[@]}"; do
  d="seeded/$id"; [ -f "$d/patch.diff" ] || continue
  prop=$(python3 -c "import json;print(json.load(open('$d/meta.json'))['property'])")
  git -C /repo checkout -q -- . ; find /repo/crates -name '*.orig' -delete
  (cd /repo && patch -p1 -F3 -s < "/verif/$d/patch.diff") || { echo "$id: PATCH DOES NOT APPLY"; git -C /repo checkout -q -- .; continue; }
  find /repo/crates -name '*.orig' -delete
  ./check "$prop" quick > "/tmp/seeded-$id.quick.log" 2>&1; q=$?
  t=-1
  if [ $q -eq 0 ]; then VERIF_BUDGET_S=240 ./check "$prop" thorough > "/tmp/seeded-$id.thorough.log" 2>&1; t=$?; fi
  git -C /repo checkout -q -- . ; find /repo/crates -name '*.orig' -delete
  first=$(grep -h -A1 VIOLATION /tmp/seeded-$id.*.log | head -2 | tr '\n' ' ' | cut -c1-400)
  python3 - "$d" "$q" "$t" "$first" <<'PY'
import json,sys
d,q,t,first=sys.argv[1],int(sys.argv[2]),int(sys.argv[3]),sys.argv[4]
json.dump({"quick_exit":q,"thorough_exit":(None if t<0 else t),"first_violation":first},open(d+"/last_run.json","w"),indent=1)
PY
  echo "$id: quick=$q thorough=$t"
done
git -C /repo status --short | head -3
