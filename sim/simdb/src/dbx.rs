//! The system under test: one `RootDatabase` on a project directory, the observables taken from
//! it, and the seams the simulator owns (tracing subscriber for query events and cancellation,
//! the H1 task executor, the H2 hash seed).

use std::cell::{Cell, RefCell};
use std::collections::BTreeMap;
use std::panic::AssertUnwindSafe;
use std::path::{Path, PathBuf};
use std::sync::Arc;

use cairo_lang_compiler::db::RootDatabase;
use cairo_lang_compiler::diagnostics::DiagnosticsReporter;
use cairo_lang_compiler::project::setup_project;
use cairo_lang_defs::db::DefsGroup;
use cairo_lang_defs::ids::{LanguageElementId, ModuleId, NamedLanguageElementId, TopLevelLanguageElementId};
use cairo_lang_filesystem::db::{FilesGroup, init_dev_corelib};
use cairo_lang_filesystem::ids::{CrateId, CrateInput, FileLongId};
use cairo_lang_filesystem::override_file_content;
use cairo_lang_lowering::db::LoweringGroup;
use cairo_lang_parser::db::ParserGroup;
use cairo_lang_semantic::db::SemanticGroup;
use cairo_lang_sierra_generator::db::SierraGenGroup;
use cairo_lang_sierra_generator::replace_ids::replace_sierra_ids_in_program;
use cairo_lang_utils::Intern;
use cairo_lang_utils::verif_par::{Executor, Task};
use salsa::Database;
use simcore::Rng;

// ---------------------------------------------------------------------------------------------
// Query-event seam: salsa emits "<key>: executing query" at INFO on the executing thread.
// ---------------------------------------------------------------------------------------------

thread_local! {
    static EXEC_COUNT: Cell<u64> = const { Cell::new(0) };
    static CANCEL_AT: Cell<u64> = const { Cell::new(u64::MAX) };
    static CANCEL_FIRED: Cell<bool> = const { Cell::new(false) };
    static TOKEN: RefCell<Option<salsa::CancellationToken>> = const { RefCell::new(None) };
    /// FNV hash of the sequence of (task, query-name) pairs: the interleaving signature.
    static ATTR_HASH: Cell<u64> = const { Cell::new(0xcbf2_9ce4_8422_2325) };
    static TASKS_WITH_QUERIES: RefCell<std::collections::BTreeSet<u64>> = const { RefCell::new(std::collections::BTreeSet::new()) };
}

// Current simulated task (for attribution of query executions), 0 = the main flow. Under shuttle
// the tasks are coroutines of one OS thread, so the variable must be shuttle's own thread-local.
#[cfg(not(feature = "shuttle"))]
thread_local! {
    static CUR_TASK: Cell<u64> = const { Cell::new(0) };
}
#[cfg(feature = "shuttle")]
shuttle::thread_local! {
    static CUR_TASK: Cell<u64> = Cell::new(0);
}

pub struct QuerySubscriber;
struct MsgVisitor {
    hit: bool,
    name_hash: u64,
}
impl tracing::field::Visit for MsgVisitor {
    fn record_debug(&mut self, field: &tracing::field::Field, value: &dyn std::fmt::Debug) {
        if field.name() == "message" {
            let s = format!("{value:?}");
            if s.ends_with("executing query") {
                self.hit = true;
                // Query kind only (strip the id), so that the signature is schedule-, not id-based.
                let name = s.split('(').next().unwrap_or("");
                self.name_hash = simcore::fnv64(name.as_bytes());
            }
        }
    }
}
impl tracing::Subscriber for QuerySubscriber {
    fn enabled(&self, m: &tracing::Metadata<'_>) -> bool {
        *m.level() <= tracing::Level::INFO && m.target().starts_with("salsa")
    }
    fn new_span(&self, _: &tracing::span::Attributes<'_>) -> tracing::span::Id {
        tracing::span::Id::from_u64(1)
    }
    fn record(&self, _: &tracing::span::Id, _: &tracing::span::Record<'_>) {}
    fn record_follows_from(&self, _: &tracing::span::Id, _: &tracing::span::Id) {}
    fn event(&self, e: &tracing::Event<'_>) {
        // The harness's own bookkeeping (std thread-locals shared by all simulated tasks of this OS
        // thread) must not be preempted half-way.
        #[cfg(feature = "shuttle")]
        let _no_preempt = crate::preempt::NoPreempt::new();
        let mut v = MsgVisitor { hit: false, name_hash: 0 };
        e.record(&mut v);
        if v.hit {
            #[cfg(feature = "shuttle")]
            crate::preempt::PROGRESS.fetch_add(1, std::sync::atomic::Ordering::Relaxed);
            let n = EXEC_COUNT.with(|c| {
                let n = c.get();
                c.set(n + 1);
                n
            });
            let task = CUR_TASK.with(|t| t.get());
            ATTR_HASH.with(|h| {
                let mut x = h.get();
                for w in [task, v.name_hash] {
                    x ^= w;
                    x = x.wrapping_mul(0x0000_0100_0000_01b3);
                }
                h.set(x);
            });
            if task != 0 {
                TASKS_WITH_QUERIES.with(|s| {
                    s.borrow_mut().insert(task);
                });
            }
            #[cfg(feature = "shuttle")]
            {
                drop(_no_preempt);
                crate::preempt::on_query_event();
            }
            if n == CANCEL_AT.with(|c| c.get()) {
                TOKEN.with(|t| {
                    if let Some(t) = t.borrow().as_ref() {
                        t.cancel();
                        CANCEL_FIRED.with(|f| f.set(true));
                    }
                });
            }
        }
    }
    fn enter(&self, _: &tracing::span::Id) {}
    fn exit(&self, _: &tracing::span::Id) {}
}

pub fn install_subscriber() {
    let _ = tracing::subscriber::set_global_default(QuerySubscriber);
}
pub fn exec_count() -> u64 {
    EXEC_COUNT.with(|c| c.get())
}
pub fn reset_attribution() {
    set_current_task(0);
    ATTR_HASH.with(|h| h.set(0xcbf2_9ce4_8422_2325));
    TASKS_WITH_QUERIES.with(|s| s.borrow_mut().clear());
}
pub fn attribution() -> (u64, usize) {
    (ATTR_HASH.with(|h| h.get()), TASKS_WITH_QUERIES.with(|s| s.borrow().len()))
}
pub fn set_current_task(t: u64) -> u64 {
    CUR_TASK.with(|c| c.replace(t))
}
/// Restores the previous task id when dropped, also when the task unwinds.
pub struct TaskGuard(pub u64);
impl Drop for TaskGuard {
    fn drop(&mut self) {
        set_current_task(self.0);
    }
}

/// Runs `f` on a snapshot and cancels it when the `k`-th query (from now) starts executing.
/// Returns (whether the token fired, whether `f` completed).
pub fn with_cancellation<R>(db: &RootDatabase, k: u64, f: impl FnOnce(&RootDatabase) -> R) -> (bool, Option<R>) {
    let snap = db.snapshot();
    TOKEN.with(|t| *t.borrow_mut() = Some(snap.cancellation_token()));
    CANCEL_FIRED.with(|c| c.set(false));
    CANCEL_AT.with(|c| c.set(exec_count() + k));
    let r = salsa::Cancelled::catch(AssertUnwindSafe(|| f(&snap)));
    CANCEL_AT.with(|c| c.set(u64::MAX));
    TOKEN.with(|t| *t.borrow_mut() = None);
    (CANCEL_FIRED.with(|c| c.get()), r.ok())
}

// ---------------------------------------------------------------------------------------------
// H1 executor, level 1: tasks of each parallel batch run one at a time, atomically, in an order
// chosen by the PRNG (depth-first: a task's own nested batches complete inside it).
// ---------------------------------------------------------------------------------------------

pub struct SeqExecutor {
    rng: RefCell<Rng>,
    workers: usize,
    pub tasks_run: Cell<u64>,
    next_task: Cell<u64>,
    /// "shuffle": PRNG permutation; "reverse": last task first; "inorder".
    mode: u8,
}
// The executor lives in a thread-local of the simulating thread and is only used from it.
unsafe impl Send for SeqExecutor {}
unsafe impl Sync for SeqExecutor {}

impl SeqExecutor {
    pub fn new(seed: u64, workers: usize, mode: u8) -> Arc<Self> {
        Arc::new(SeqExecutor {
            rng: RefCell::new(Rng::new(seed)),
            workers,
            tasks_run: Cell::new(0),
            next_task: Cell::new(1),
            mode,
        })
    }
}
impl Executor for SeqExecutor {
    fn run_scoped<'a>(&self, mut tasks: Vec<Task<'a>>) {
        match self.mode {
            0 => self.rng.borrow_mut().shuffle(&mut tasks),
            1 => tasks.reverse(),
            _ => {}
        }
        for t in tasks {
            let id = self.next_task.get();
            self.next_task.set(id + 1);
            self.tasks_run.set(self.tasks_run.get() + 1);
            let _restore = TaskGuard(set_current_task(id));
            t();
        }
    }
    fn num_threads(&self) -> usize {
        self.workers
    }
}

// ---------------------------------------------------------------------------------------------
// The system under test
// ---------------------------------------------------------------------------------------------

pub struct Sut {
    pub db: RootDatabase,
    pub main: Vec<CrateInput>,
    pub root: PathBuf,
    pub starknet: bool,
}

pub fn corelib_path() -> PathBuf {
    simcore::repo_root().join("corelib/src")
}

impl Sut {
    pub fn new(root: &Path, starknet: bool) -> Result<Sut, String> {
        let mut b = RootDatabase::builder();
        if starknet {
            b.with_default_plugin_suite(cairo_lang_starknet::starknet_plugin_suite());
        }
        // Projects whose (never edited) cairo_project.toml carries the marker get the executable
        // plugin. The decision must not depend on files the simulated editor or disk faults touch.
        if std::fs::read_to_string(root.join("cairo_project.toml")).map(|s| s.contains("verif-plugin: executable")).unwrap_or(false) {
            b.with_default_plugin_suite(cairo_lang_executable_plugin::executable_plugin_suite());
        }
        let mut db = b.build().map_err(|e| format!("db build: {e}"))?;
        init_dev_corelib(&mut db, corelib_path());
        let main = setup_project(&mut db, root).map_err(|e| format!("setup_project: {e:?}"))?;
        Ok(Sut { db, main, root: root.to_path_buf(), starknet })
    }

    pub fn set_override(&mut self, rel: &str, content: Option<String>) {
        let path = self.root.join(rel);
        let dbm: &mut dyn Database = &mut self.db;
        let file_id = FileLongId::OnDisk(path).intern(dbm);
        override_file_content!(dbm, file_id, content.map(|c| c.into()));
    }

    /// Compiler flags (which an IDE or build tool changes like a project setting).
    pub fn set_flag(&mut self, which: u8, value: bool) {
        use cairo_lang_filesystem::flag::{Flag, FlagsGroup};
        use cairo_lang_filesystem::ids::FlagLongId;
        let (name, flag) = match which % 3 {
            0 => (Flag::ADD_WITHDRAW_GAS, Flag::AddWithdrawGas(value)),
            1 => (Flag::PANIC_BACKTRACE, Flag::PanicBacktrace(value)),
            _ => (Flag::UNSAFE_PANIC, Flag::UnsafePanic(value)),
        };
        self.db.set_flag(FlagLongId(name.into()), Some(flag));
    }

    pub fn crate_ids<'db>(&self, db: &'db RootDatabase) -> Vec<CrateId<'db>> {
        CrateInput::into_crate_ids(db, self.main.clone())
    }
}

/// The id-normalised observable of a database.
#[derive(Clone, Debug, PartialEq, Eq, Default)]
pub struct Obs {
    pub diagnostics: String,
    pub sierra: String,
    pub locations: String,
}
impl Obs {
    pub fn hash(&self) -> u64 {
        simcore::fnv64(format!("{}\u{1}{}\u{1}{}", self.diagnostics, self.sierra, self.locations).as_bytes())
    }
    pub fn first_difference(&self, other: &Obs) -> String {
        for (name, a, b) in [
            ("diagnostics", &self.diagnostics, &other.diagnostics),
            ("sierra", &self.sierra, &other.sierra),
            ("locations", &self.locations, &other.locations),
        ] {
            if a != b {
                let la: Vec<&str> = a.lines().collect();
                let lb: Vec<&str> = b.lines().collect();
                for k in 0..la.len().max(lb.len()) {
                    if la.get(k) != lb.get(k) {
                        return format!(
                            "{name} differ at line {k}: incremental={:?} fresh={:?}",
                            la.get(k).unwrap_or(&"<end>"),
                            lb.get(k).unwrap_or(&"<end>")
                        );
                    }
                }
                return format!("{name} differ");
            }
        }
        "equal".into()
    }
}

pub fn panic_message(p: Box<dyn std::any::Any + Send>) -> String {
    p.downcast_ref::<String>().cloned().or_else(|| p.downcast_ref::<&str>().map(|s| s.to_string())).unwrap_or_else(|| "<non-string panic>".into())
}

pub fn diagnostics_of(db: &RootDatabase, main: &[CrateInput]) -> (String, bool) {
    let mut s = String::new();
    let has_errors = DiagnosticsReporter::write_to_string(&mut s).with_crates(main).allow_warnings().check(db);
    (s, has_errors)
}

pub fn sierra_of(db: &RootDatabase, main: &[CrateInput]) -> String {
    let ids = CrateInput::into_crate_ids(db, main.to_vec());
    match db.get_sierra_program(ids) {
        Ok(p) => replace_sierra_ids_in_program(db, &p.program).to_string(),
        Err(_) => "ERR: no sierra program".to_string(),
    }
}

/// name -> file:line:col of every module item of the main crates, through stable pointers.
pub fn locations_of(db: &RootDatabase, main: &[CrateInput]) -> String {
    let mut out = BTreeMap::new();
    for c in CrateInput::into_crate_ids(db, main.to_vec()) {
        for m in db.crate_modules(c).iter() {
            let Ok(data) = m.module_data(db) else { continue };
            for item in data.items(db).iter() {
                let name = item.path_segments(db).iter().map(|s| s.long(db).to_string()).collect::<Vec<_>>().join("::");
                let loc = item.stable_location(db);
                let span = loc.span_in_file(db);
                let pos = span
                    .span
                    .position_in_file(db, span.file_id)
                    .map(|p| format!("{}:{}-{}:{}", p.start.line, p.start.col, p.end.line, p.end.col))
                    .unwrap_or_else(|| "?".into());
                let file = span.file_id.file_name(db).to_string(db);
                let node = item.untyped_stable_ptr(db).lookup(db);
                let head: String = node.get_text_without_trivia(db).long(db).chars().take(24).collect();
                out.entry(name).or_insert_with(Vec::new).push(format!("{file}@{pos} `{}`", head.replace('\n', " ")));
            }
        }
    }
    out.into_iter().map(|(k, v)| format!("{k} => {}", v.join(" | "))).collect::<Vec<_>>().join("\n")
}

/// ABI, entry points and a hash of the Sierra program of every contract of the main crates
/// (`cairo_lang_starknet::compile::compile_prepared_db`, ids replaced); empty when there is none.
pub fn contract_classes_of(db: &RootDatabase, main: &[CrateInput]) -> String {
    let ids = CrateInput::into_crate_ids(db, main.to_vec());
    let contracts = cairo_lang_starknet::contract::find_contracts(db, &ids);
    if contracts.is_empty() {
        return String::new();
    }
    let mut diags = String::new();
    let cfg = cairo_lang_compiler::CompilerConfig {
        replace_ids: true,
        diagnostics_reporter: DiagnosticsReporter::write_to_string(&mut diags).with_crates(main).allow_warnings(),
        ..Default::default()
    };
    let refs: Vec<_> = contracts.iter().collect();
    let mut out = String::from("\n=== contract classes ===\n");
    match cairo_lang_starknet::compile::compile_prepared_db(db, &refs, cfg) {
        Ok(classes) => {
            for (i, c) in classes.iter().enumerate() {
                let abi = serde_json::to_string(&c.abi).unwrap_or_else(|e| format!("ERR {e}"));
                let eps = serde_json::to_string(&c.entry_points_by_type).unwrap_or_else(|e| format!("ERR {e}"));
                let program = serde_json::to_string(&c.sierra_program).unwrap_or_default();
                out.push_str(&format!("contract {i}\nabi {abi}\nentry_points {eps}\nsierra_program_hash {:016x}\n", simcore::fnv64(program.as_bytes())));
            }
        }
        Err(e) => out.push_str(&format!("ERR {e}\n")),
    }
    out
}

/// `root`: the project directory, replaced by `<ROOT>` in the text so that observations made in
/// different scratch directories are comparable.
pub fn observe_in(db: &RootDatabase, main: &[CrateInput], root: &Path) -> Result<Obs, String> {
    let r = root.to_string_lossy().to_string();
    observe(db, main).map(|o| Obs {
        diagnostics: o.diagnostics.replace(&r, "<ROOT>"),
        sierra: o.sierra,
        locations: o.locations,
    })
}

pub fn observe(db: &RootDatabase, main: &[CrateInput]) -> Result<Obs, String> {
    std::panic::catch_unwind(AssertUnwindSafe(|| {
        let (diagnostics, has_errors) = diagnostics_of(db, main);
        let mut sierra = if has_errors { "(not compiled: diagnostics have errors)".to_string() } else { sierra_of(db, main) };
        if !has_errors {
            // For a Starknet project "the generated Sierra" is the contract class: its ABI and entry
            // points are generated from plugin aux data, which a stale memo would not show in the
            // crate's Sierra program alone.
            sierra.push_str(&contract_classes_of(db, main));
        }
        let locations = locations_of(db, main);
        Obs { diagnostics, sierra, locations }
    }))
    .map_err(panic_message)
}

/// Structural invariants of the syntax trees of the project's files, on PRNG-chosen nodes:
/// `get_text == content[span]`, root span = whole file, children tile the parent.
pub fn syntax_invariants(db: &RootDatabase, main: &[CrateInput], rng: &mut Rng, samples: usize) -> Result<usize, String> {
    let mut checked = 0;
    for c in CrateInput::into_crate_ids(db, main.to_vec()) {
        for m in db.crate_modules(c).iter() {
            let Ok(files) = db.module_files(*m) else { continue };
            for f in files.iter().copied() {
                let Some(content) = db.file_content(f) else { continue };
                let Ok(root) = db.file_syntax(f) else { continue };
                let span = root.span(db);
                if span.start.as_u32() != 0 || span.end.as_u32() as usize != content.len() {
                    return Err(format!("root span {:?} != file length {} in {}", span, content.len(), f.file_name(db).to_string(db)));
                }
                let nodes: Vec<_> = root.descendants(db).collect();
                if nodes.is_empty() {
                    continue;
                }
                for _ in 0..samples {
                    let n = nodes[rng.below(nodes.len())];
                    let sp = n.span(db);
                    let (s, e) = (sp.start.as_u32() as usize, sp.end.as_u32() as usize);
                    if e > content.len() || s > e || !content.is_char_boundary(s) || !content.is_char_boundary(e) {
                        return Err(format!("node span {s}..{e} outside file of length {}", content.len()));
                    }
                    if n.get_text(db) != &content[s..e] {
                        return Err(format!("node text {:?} != file content at its span {:?}", n.get_text(db), &content[s..e]));
                    }
                    let mut cur = s;
                    for ch in n.get_children(db).iter() {
                        let csp = ch.span(db);
                        if csp.start.as_u32() as usize != cur {
                            return Err(format!("children do not tile parent at offset {cur}"));
                        }
                        cur = csp.end.as_u32() as usize;
                    }
                    if !n.get_children(db).is_empty() && cur != e {
                        return Err("children do not cover parent".into());
                    }
                    checked += 1;
                }
            }
        }
    }
    Ok(checked)
}

/// Partial queries used as history steps. Results are discarded: only their effect on the
/// database's memo state matters.
pub fn partial_query(db: &RootDatabase, main: &[CrateInput], kind: u8, pick: usize) {
    let crates = CrateInput::into_crate_ids(db, main.to_vec());
    let Some(c) = crates.first().copied() else { return };
    let modules = db.crate_modules(c);
    if modules.is_empty() {
        return;
    }
    let m: ModuleId<'_> = modules[pick % modules.len()];
    if std::env::var("VERIF_DUMP_DIR").is_ok() {
        eprintln!("partial_query kind={} module={}", kind % 6, m.full_path(db));
    }
    match kind % 6 {
        0 => {
            let _ = db.module_semantic_diagnostics(m);
        }
        1 => {
            let _ = db.module_lowering_diagnostics(m);
        }
        2 => {
            if let Ok(files) = db.module_files(m) {
                for f in files.iter().copied() {
                    let _ = db.file_syntax_diagnostics(f);
                }
            }
        }
        3 => {
            if let Ok(fs) = db.module_free_functions_ids(m) {
                if !fs.is_empty() {
                    let f = fs[pick % fs.len()];
                    let _ = f.name(db);
                    if let Some(cf) = cairo_lang_lowering::ids::ConcreteFunctionWithBodyId::from_no_generics_free(db, f) {
                        let _ = db.function_with_body_sierra(cf);
                    }
                }
            }
        }
        4 => {
            let _ = locations_of(db, main);
        }
        _ => {
            let _ = diagnostics_of(db, main);
        }
    }
}

/// Splits formatted diagnostics into entries and returns, for the entries present in exactly one
/// of the two texts, the sorted distinct `file:code` items (e.g. `cycles.cairo:E2026`). Used to
/// give differences between two diagnostics lists a specific signature.
pub fn diag_diff_items(a: &str, b: &str) -> Vec<String> {
    fn entries(s: &str) -> Vec<String> {
        let mut out = vec![];
        let mut cur = String::new();
        for line in s.lines() {
            if (line.starts_with("error") || line.starts_with("warning")) && !cur.is_empty() {
                out.push(std::mem::take(&mut cur));
            }
            cur.push_str(line);
            cur.push('\n');
        }
        if !cur.is_empty() {
            out.push(cur);
        }
        out
    }
    fn item(e: &str) -> String {
        let code = e.find('[').and_then(|i| e[i + 1..].find(']').map(|j| e[i + 1..i + 1 + j].to_string())).unwrap_or_else(|| "nocode".into());
        let file = e
            .lines()
            .find_map(|l| l.trim_start().strip_prefix("--> "))
            .map(|p| {
                let p = p.split(':').next().unwrap_or(p);
                p.rsplit('/').next().unwrap_or(p).to_string()
            })
            .unwrap_or_else(|| "nofile".into());
        format!("{file}:{code}")
    }
    let ea = entries(a);
    let eb = entries(b);
    let mut items: Vec<String> = vec![];
    let mut count = |x: &Vec<String>, y: &Vec<String>| {
        let mut rest: Vec<&String> = y.iter().collect();
        for e in x {
            if let Some(p) = rest.iter().position(|r| *r == e) {
                rest.remove(p);
            } else {
                items.push(item(e));
            }
        }
    };
    count(&ea, &eb);
    count(&eb, &ea);
    items.sort();
    items.dedup();
    items
}

/// For two Sierra programs in `Program` Display form with debug names: the user functions whose
/// number of `withdraw_gas` invocations differs (sorted). Empty when the programs differ in some
/// other way only.
pub fn sierra_withdraw_gas_items(a: &str, b: &str) -> Vec<String> {
    fn per_function(s: &str) -> BTreeMap<String, usize> {
        // With debug names the statements carry labels: `F7:` opens function F7 (`F7_B2:` is a
        // block inside it) and the declarations at the end read `name@F7(...) -> (...);`.
        let mut counts: BTreeMap<String, usize> = BTreeMap::new();
        let mut names: BTreeMap<String, String> = BTreeMap::new();
        let mut cur = String::new();
        for line in s.lines() {
            let t = line.trim();
            if let Some(l) = t.strip_suffix(':') {
                if l.starts_with('F') && l[1..].chars().all(|c| c.is_ascii_digit()) && l.len() > 1 {
                    cur = l.to_string();
                    counts.entry(cur.clone()).or_insert(0);
                }
                continue;
            }
            if t.starts_with("withdraw_gas(") || t.starts_with("withdraw_gas_all(") {
                *counts.entry(cur.clone()).or_insert(0) += 1;
            }
            if let Some(at) = t.rfind("@F") {
                let rest = &t[at + 1..];
                let label: String = rest.chars().take_while(|c| *c != '(').collect();
                if rest[label.len()..].starts_with('(') && label[1..].chars().all(|c| c.is_ascii_digit()) && label.len() > 1 {
                    names.insert(label, t[..at].to_string());
                }
            }
        }
        counts.into_iter().map(|(label, n)| (names.get(&label).cloned().unwrap_or(label), n)).collect()
    }
    let (fa, fb) = (per_function(a), per_function(b));
    let mut items = vec![];
    for (name, n) in &fa {
        if fb.get(name) != Some(n) {
            items.push(name.clone());
        }
    }
    for name in fb.keys() {
        if !fa.contains_key(name) {
            items.push(name.clone());
        }
    }
    items.sort();
    items.dedup();
    items
}
