pub fn helper_one(mut a: Array<u128>, x: u128) -> u128 {
    let mut acc: u128 = x + 1;
    let mut i: u32 = 0;
    while i != 4 {
        acc = match a.pop_front() {
            Some(v) => { if v > acc { v - acc } else { acc - v + 1 } },
            None => acc * 3 + 1,
        };
        a.append(acc);
        i += 1;
    }
    acc
}

pub fn helper_two(x: u64) -> u64 {
    let (q, r) = DivRem::div_rem(x, 7_u64.try_into().unwrap());
    q + r
}

pub fn ping(n: felt252) -> felt252 {
    if n == 0 {
        0
    } else {
        super::mb::pong(n - 1) + 1
    }
}
