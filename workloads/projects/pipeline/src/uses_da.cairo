use super::dtypes::DA;

pub fn only_a(a: DA) -> felt252 {
    1
}
