fn twice() -> felt252 {
    1
}
fn twice() -> felt252 {
    2
}
struct S {
    a: felt252,
    a: felt252,
}
enum E {
    V,
    V,
}
fn params(x: u8, x: u8) -> u8 {
    x
}

fn macro_errors_dup() {
    println!("{} and {}",  undefined_dup_a,  undefined_dup_b);
    let _arr = array![1,  undefined_dup_c];
}

// Item-level macro calls whose plugin diagnostics carry an inner span (the argument, not the item).
compile_error!(3 + 4);

compile_error!(   twice(1),  2);
