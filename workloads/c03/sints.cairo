// Signed integer arithmetic and comparisons.

use core::num::traits::{OverflowingAdd, OverflowingSub, WrappingAdd, WrappingSub, CheckedAdd, CheckedSub, WideMul};

fn add_i8(a: i8, b: i8) -> i8 { a + b }
fn sub_i8(a: i8, b: i8) -> i8 { a - b }
fn mul_i8(a: i8, b: i8) -> i8 { a * b }
fn neg_i8(a: i8) -> i8 { -a }
fn lt_i8(a: i8, b: i8) -> bool { a < b }
fn le_i8(a: i8, b: i8) -> bool { a <= b }
fn oadd_i8(a: i8, b: i8) -> (i8, bool) { a.overflowing_add(b) }
fn osub_i8(a: i8, b: i8) -> (i8, bool) { a.overflowing_sub(b) }
fn wadd_i8(a: i8, b: i8) -> i8 { a.wrapping_add(b) }
fn wsub_i8(a: i8, b: i8) -> i8 { a.wrapping_sub(b) }
fn cadd_i8(a: i8, b: i8) -> Option<i8> { a.checked_add(b) }
fn csub_i8(a: i8, b: i8) -> Option<i8> { a.checked_sub(b) }
fn divrem_i8(a: i8, b: NonZero<i8>) -> (i8, i8) { DivRem::div_rem(a, b) }

fn add_i16(a: i16, b: i16) -> i16 { a + b }
fn sub_i16(a: i16, b: i16) -> i16 { a - b }
fn mul_i16(a: i16, b: i16) -> i16 { a * b }
fn neg_i16(a: i16) -> i16 { -a }
fn lt_i16(a: i16, b: i16) -> bool { a < b }
fn le_i16(a: i16, b: i16) -> bool { a <= b }
fn oadd_i16(a: i16, b: i16) -> (i16, bool) { a.overflowing_add(b) }
fn osub_i16(a: i16, b: i16) -> (i16, bool) { a.overflowing_sub(b) }
fn wadd_i16(a: i16, b: i16) -> i16 { a.wrapping_add(b) }
fn wsub_i16(a: i16, b: i16) -> i16 { a.wrapping_sub(b) }
fn cadd_i16(a: i16, b: i16) -> Option<i16> { a.checked_add(b) }
fn csub_i16(a: i16, b: i16) -> Option<i16> { a.checked_sub(b) }
fn divrem_i16(a: i16, b: NonZero<i16>) -> (i16, i16) { DivRem::div_rem(a, b) }

fn add_i32(a: i32, b: i32) -> i32 { a + b }
fn sub_i32(a: i32, b: i32) -> i32 { a - b }
fn mul_i32(a: i32, b: i32) -> i32 { a * b }
fn neg_i32(a: i32) -> i32 { -a }
fn lt_i32(a: i32, b: i32) -> bool { a < b }
fn le_i32(a: i32, b: i32) -> bool { a <= b }
fn oadd_i32(a: i32, b: i32) -> (i32, bool) { a.overflowing_add(b) }
fn osub_i32(a: i32, b: i32) -> (i32, bool) { a.overflowing_sub(b) }
fn wadd_i32(a: i32, b: i32) -> i32 { a.wrapping_add(b) }
fn wsub_i32(a: i32, b: i32) -> i32 { a.wrapping_sub(b) }
fn cadd_i32(a: i32, b: i32) -> Option<i32> { a.checked_add(b) }
fn csub_i32(a: i32, b: i32) -> Option<i32> { a.checked_sub(b) }
fn divrem_i32(a: i32, b: NonZero<i32>) -> (i32, i32) { DivRem::div_rem(a, b) }

fn add_i64(a: i64, b: i64) -> i64 { a + b }
fn sub_i64(a: i64, b: i64) -> i64 { a - b }
fn mul_i64(a: i64, b: i64) -> i64 { a * b }
fn neg_i64(a: i64) -> i64 { -a }
fn lt_i64(a: i64, b: i64) -> bool { a < b }
fn le_i64(a: i64, b: i64) -> bool { a <= b }
fn oadd_i64(a: i64, b: i64) -> (i64, bool) { a.overflowing_add(b) }
fn osub_i64(a: i64, b: i64) -> (i64, bool) { a.overflowing_sub(b) }
fn wadd_i64(a: i64, b: i64) -> i64 { a.wrapping_add(b) }
fn wsub_i64(a: i64, b: i64) -> i64 { a.wrapping_sub(b) }
fn cadd_i64(a: i64, b: i64) -> Option<i64> { a.checked_add(b) }
fn csub_i64(a: i64, b: i64) -> Option<i64> { a.checked_sub(b) }
fn divrem_i64(a: i64, b: NonZero<i64>) -> (i64, i64) { DivRem::div_rem(a, b) }

fn add_i128(a: i128, b: i128) -> i128 { a + b }
fn sub_i128(a: i128, b: i128) -> i128 { a - b }
fn mul_i128(a: i128, b: i128) -> i128 { a * b }
fn neg_i128(a: i128) -> i128 { -a }
fn lt_i128(a: i128, b: i128) -> bool { a < b }
fn le_i128(a: i128, b: i128) -> bool { a <= b }
fn oadd_i128(a: i128, b: i128) -> (i128, bool) { a.overflowing_add(b) }
fn osub_i128(a: i128, b: i128) -> (i128, bool) { a.overflowing_sub(b) }
fn wadd_i128(a: i128, b: i128) -> i128 { a.wrapping_add(b) }
fn wsub_i128(a: i128, b: i128) -> i128 { a.wrapping_sub(b) }
fn cadd_i128(a: i128, b: i128) -> Option<i128> { a.checked_add(b) }
fn csub_i128(a: i128, b: i128) -> Option<i128> { a.checked_sub(b) }
fn divrem_i128(a: i128, b: NonZero<i128>) -> (i128, i128) { DivRem::div_rem(a, b) }

