type A = B;
type B = C;
type C = A;

const X: felt252 = Y + 1;
const Y: felt252 = X + 1;

struct Node {
    value: felt252,
    next: Node,
}

trait T1 {
    fn f() -> felt252;
}
impl I1 of T1 {
    fn f() -> felt252 {
        1
    }
}
impl AliasA = AliasB;
impl AliasB = AliasA;

use super::cycles::loop_a::item as item_a;
mod loop_a {
    pub use super::loop_b::item;
}
mod loop_b {
    pub use super::loop_a::item;
}

fn uses() -> felt252 {
    let n: A = 3;
    X + AliasA::f()
}
