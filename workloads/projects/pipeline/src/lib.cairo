// A project that exercises the middle of the pipeline: inlining hints, closures and loops
// (generated functions), several implicits, destructors and panics, generic impls, glob imports,
// constants used across modules, specialisation candidates.
mod consts;
mod hashing;
mod containers;
mod generic;
mod flow;
mod band;
mod recursive;
mod sig_a;
mod sig_b;
mod sig_c;
mod dtypes;
mod uses_da;
mod uses_db;
mod uses_both;

use consts::*;
use generic::{Describe, Scale};

fn main() -> felt252 {
    let h = hashing::mix(LIMIT.into(), OFFSET);
    let c = containers::sum_squares(array![1, 2, 3, BASE].span());
    let g = 7_u32.scale(3).describe() + 9_u64.scale(2).describe();
    let f = flow::collatz(27) + flow::apply_twice(5, 3);
    h + c.into() + g + f.into() + band::caller_3(2) + band::caller_6(3) + recursive::head(recursive::pass(recursive::singleton(4)))
}
